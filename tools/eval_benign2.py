#!/usr/bin/env python3
"""False-alarm test on SCRATCH worktrees (never /repo): apply each behaviour-preserving diff, run ALL 20 quick checks with --repo, undo.
usage: eval_benign2.py [-j N] <diff>...   (results in seeded/benign_results.json)"""
import json, os, re, subprocess, sys, threading, queue
V = '/verif'
SCR = os.path.expanduser('~/.cache/verif-scratch')
args = sys.argv[1:]
jobs = 3
if '-j' in args:
    i = args.index('-j'); jobs = int(args[i + 1]); del args[i:i + 2]
out_p = V + '/seeded/benign_results.json'
res = json.load(open(out_p)) if os.path.exists(out_p) else {}
props = ['C%02d' % i for i in range(1, 21)]
todo = queue.Queue()
for d in args:
    todo.put(os.path.abspath(d))
lock = threading.Lock()
head = subprocess.run(['git', '-C', '/repo', 'rev-parse', 'HEAD'], capture_output=True, text=True).stdout.strip()


def worker(k):
    w = os.path.join(SCR, 'benign-%d-%d' % (os.getpid(), k))
    if not os.path.isdir(w):
        os.makedirs(SCR, exist_ok=True)
        subprocess.run(['git', '-C', '/repo', 'worktree', 'add', '--detach', w, 'HEAD', '-q'], check=True)
    while True:
        try:
            d = todo.get_nowait()
        except queue.Empty:
            return
        name = os.path.basename(d)
        subprocess.run(['git', '-C', w, 'checkout', '-q', '--detach', head])
        subprocess.run(['git', '-C', w, 'checkout', '--', '.']); subprocess.run(['git', '-C', w, 'clean', '-fdq', '-e', 'target'])
        ap = subprocess.run(['git', '-C', w, 'apply', d], capture_output=True, text=True)
        if ap.returncode != 0:
            with lock:
                res[name] = {'status': 'patch does not apply', 'stderr': ap.stderr[-300:]}
                print(name, res[name], flush=True)
            continue
        r = {}
        for p in props:
            pr = subprocess.run([V + '/check', p, '--no-evidence', '--repo', w], capture_output=True, text=True, cwd=V)
            viol = re.findall(r'VIOLATION property=\S+ replay=(\S+)', pr.stdout)
            und = re.findall(r'UNDECIDED: (.*)', pr.stdout)
            if pr.returncode != 0:
                r[p] = {'exit': pr.returncode, 'violations': [os.path.basename(v) for v in viol], 'undecided': [u[:200] for u in und[:2]]}
        subprocess.run(['git', '-C', w, 'checkout', '--', '.']); subprocess.run(['git', '-C', w, 'clean', '-fdq', '-e', 'target'])
        alarms = {p: v['violations'] for p, v in r.items() if v['exit'] == 1}
        with lock:
            res[name] = {'non_zero': r}
            print(name, 'ALARMS' if alarms else 'no alarm', alarms, 'undecided:', sorted(p for p, v in r.items() if v['exit'] == 2), flush=True)
            json.dump(res, open(out_p, 'w'), indent=1)


ths = [threading.Thread(target=worker, args=(k,)) for k in range(jobs)]
[t.start() for t in ths]; [t.join() for t in ths]
