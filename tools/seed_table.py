#!/usr/bin/env python3
"""Markdown table of seeded changes and the verdict of ./check <ID> (quick tier) with each applied: seeded/results.json + meta.json."""
import json, os, glob, sys, re
V = os.path.dirname(os.path.dirname(os.path.abspath(__file__)))
res = json.load(open(os.path.join(V, 'seeded', 'results.json')))
rounds = {'1': lambda n: re.fullmatch(r'C\d\d-\d', n), '2': lambda n: '-b' in n, '3': lambda n: '-c' in n, '4': lambda n: '-d' in n, '5': lambda n: '-e' in n, '6': lambda n: '-f' in n, '7': lambda n: '-g' in n, '8': lambda n: '-h' in n, '9': lambda n: '-i' in n, '10': lambda n: '-j' in n}
which = sys.argv[1] if len(sys.argv) > 1 else None
tot = {}
for rd, pred in rounds.items():
    if which and rd != which:
        continue
    print('\n**Round %s**\n\n| seed | change | verdict | obligation(s) reported / reason |\n|---|---|---|---|' % rd)
    for d in sorted(glob.glob(os.path.join(V, 'seeded', 'C*-*'))):
        n = os.path.basename(d)
        if not pred(n):
            continue
        m = json.load(open(os.path.join(d, 'meta.json')))
        summ = re.sub(r'\s+', ' ', m.get('summary', '')).split('. ')[0][:150].replace('|', '/')
        r = res.get(n, {})
        ex = r.get('exit')
        if ex == 1:
            v = 'caught'
            det = ', '.join(x.split('_', 2)[1] + '/' + x.split('_', 2)[2] if x.count('_') >= 2 else x for x in r.get('violations', [])[:3])
            if r.get('undecided'):
                v = 'caught (part of the unit undecided)'
        elif ex == 2:
            v = '**undecided (exit 2)**'
            det = '; '.join(re.sub(r'\s+', ' ', u)[:140] for u in r.get('undecided', [])[:1])
        elif ex == 0:
            v = '**missed**'
            det = ''
        else:
            v, det = str(r.get('status', 'not run')), ''
        tot.setdefault(rd, {}).setdefault(v.strip('*'), 0)
        tot[rd][v.strip('*')] += 1
        print('| %s | %s | %s | %s |' % (n, summ, v, det.replace('|', '/')))
print()
for rd, t in tot.items():
    print('Round %s: %s' % (rd, ', '.join('%d %s' % (c, k) for k, c in sorted(t.items()))))
