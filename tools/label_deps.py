#!/usr/bin/env python3
"""Which labelled clauses does each labelled clause's PROOF depend on?  (developer tool; decides nothing)

Verification is modular: a caller's clause for property P is proved from its callees' clauses, so when a callee's clause breaks, the
caller's claim for P is no longer proved - the callee's clause serves P as well. This tool computes that dependency mechanically:
for every labelled `ensures` clause c of an extracted function it builds a variant of the assembled unit in which c is replaced by
`true` (line count preserved), runs Verus, and records which labelled clauses of OTHER functions stop verifying. The output lists, per
clause, the properties of its dependants that its own label does not name yet.

usage: label_deps.py <unit> <outfile.json> [-j N] [--only fn1,fn2]
"""
import json, os, re, subprocess, sys, hashlib, concurrent.futures as cf
VERIF = os.path.dirname(os.path.dirname(os.path.abspath(__file__)))
sys.path.insert(0, os.path.join(VERIF, 'tools'))
import assemble as asm
import runverus

LABEL_RX = re.compile(r'//#\s*([A-Z0-9, ]+?)\s+(\w+)\s*$')


def clause_extent(lines, fn, L):
    """0-based [a, b] line range of the clause whose label sits on line L (0-based), and the replacement text."""
    s = lines[L].strip()
    if s.startswith('&&&'):
        return L, L, lines[L][:len(lines[L]) - len(lines[L].lstrip())] + '&&& true'
    if s.startswith('|||') or s.startswith('||'):
        return None
    if s.startswith('&&'):        # continuation of a conjunction: weaken by dropping this conjunct
        return L, L, lines[L][:len(lines[L]) - len(lines[L].lstrip())] + '&& true' + (',' if re.search(r',\s*//#', lines[L]) else '')
    # top-level clause of the ensures list: walk back to the line where bracket depth returns to 0 after a ',' or the `ensures` keyword
    depth = 0
    a = L
    code = lambda t: t.split('//')[0]
    # compute depth change scanning backwards
    k = L
    while k >= fn['out_start'] - 1:
        c = code(lines[k])
        depth += c.count(')') + c.count('}') + c.count(']') - c.count('(') - c.count('{') - c.count('[')
        st = c.strip()
        if depth <= 0 and k < L and (st.endswith(',') or st == 'ensures' or st.startswith('ensures')):
            a = k + 1
            break
        if st.startswith('ensures'):
            a = k
            break
        k -= 1
    else:
        return None
    first = lines[a]
    ind = first[:len(first) - len(first.lstrip())]
    if first.strip().startswith('ensures'):
        rep = ind + 'ensures true,'
    else:
        rep = ind + 'true,'
    return a, L, rep


def run_variant(args):
    unit, text, idx, lab, workdir = args
    path = os.path.join(workdir, '%s_v%d.rs' % (unit, idx))
    open(path, 'w').write(text)
    p = subprocess.run(['verus', path] + ['--output-json', '--error-format=json', '--multiple-errors', '40', '--triggers-mode', 'silent', '--num-threads', '4'],
                       capture_output=True, text=True, cwd=VERIF)
    failed_lines = set()
    ok = False
    try:
        out = json.loads(p.stdout)
        vr = out['verification-results']
        ok = not vr.get('encountered-vir-error') and (vr.get('verified', 0) + vr.get('errors', 0) > 0)
    except Exception:
        ok = False
    for ln in p.stderr.split('\n'):
        if ln.startswith('{'):
            try:
                d = json.loads(ln)
            except Exception:
                continue
            if d.get('level') == 'error':
                for sp in d.get('spans', []):
                    if os.path.basename(sp.get('file_name', '')) == os.path.basename(path):
                        for l in range(sp['line_start'], sp['line_end'] + 1):
                            failed_lines.add(l)
    try:
        os.remove(path)
    except OSError:
        pass
    return idx, ok, sorted(failed_lines)


def main():
    unit, outfile = sys.argv[1], sys.argv[2]
    jobs, only = 4, None
    rest = sys.argv[3:]
    if '-j' in rest:
        jobs = int(rest[rest.index('-j') + 1])
    if '--only' in rest:
        only = set(rest[rest.index('--only') + 1].split(','))
    workdir = os.path.join(VERIF, 'build', 'labeldeps')
    os.makedirs(workdir, exist_ok=True)
    meta = asm.assemble(unit, '/repo', 'partial', workdir)
    lines = open(meta['file']).read().split('\n')
    fns = {f['name']: f for f in meta['functions']}
    label_at = {l['out_line']: l for l in meta['labels']}
    tasks = []
    info = {}
    for i, l in enumerate(meta['labels']):
        if l['fn'] is None or l['fn'] not in fns:
            continue
        if only and l['fn'] not in only:
            continue
        f = fns[l['fn']]
        L = l['out_line'] - 1
        if not (f['out_start'] - 1 <= L <= f['out_end'] - 1):
            continue
        ext = clause_extent(lines, f, L)
        if ext is None:
            continue
        a, b, rep = ext
        var = list(lines)
        var[a] = rep
        for k in range(a + 1, b + 1):
            var[k] = ''
        info[i] = l
        tasks.append((unit, '\n'.join(var), i, l['name'], workdir))
    print('%s: %d labelled clauses to analyse' % (unit, len(tasks)), flush=True)
    result = {}
    with cf.ThreadPoolExecutor(max_workers=jobs) as ex:
        for idx, ok, failed in ex.map(run_variant, tasks):
            l = info[idx]
            if not ok:
                result[l['name'] + '@' + l['fn']] = {'status': 'variant did not compile'}
                print('SKIP', l['fn'], l['name'], flush=True)
                continue
            deps = []
            for fl in failed:
                d = label_at.get(fl)
                if d and d['fn'] != l['fn'] and (d['fn'], d['name']) not in [(x['fn'], x['name']) for x in deps]:
                    deps.append({'fn': d['fn'], 'name': d['name'], 'props': d['props']})
            need = sorted({p for d in deps for p in d['props']} - set(l['props']))
            result[l['name'] + '@' + l['fn']] = {'props': l['props'], 'dependants': deps, 'missing_props': need, 'spec': l['spec']}
            if need:
                print('ADD %s to %s (%s) <- %s' % (','.join(need), l['name'], l['fn'], ', '.join('%s/%s' % (d['fn'], d['name']) for d in deps[:4])), flush=True)
            json.dump(result, open(outfile, 'w'), indent=1)
    json.dump(result, open(outfile, 'w'), indent=1)
    print('done', flush=True)


if __name__ == '__main__':
    main()
