#!/usr/bin/env python3
"""Replace every `**Round N**` table of DESIGN.md (marker line .. `Round N: ...` summary line) by the current output of tools/seed_table.py N."""
import re, subprocess, sys, os
V = os.path.dirname(os.path.dirname(os.path.abspath(__file__)))
p = os.path.join(V, 'DESIGN.md')
L = open(p).read().split('\n')
out, i, done = [], 0, []
while i < len(L):
    m = re.fullmatch(r'\*\*Round (\d+)\*\*', L[i])
    if m:
        rd = m.group(1)
        j = i
        while j < len(L) and not L[j].startswith('Round %s:' % rd):
            j += 1
        if j < len(L):
            new = subprocess.run([sys.executable, os.path.join(V, 'tools', 'seed_table.py'), rd], capture_output=True, text=True).stdout.strip('\n').split('\n')
            out.extend(new)
            i = j + 1
            done.append(rd)
            continue
    out.append(L[i]); i += 1
open(p, 'w').write('\n'.join(out))
print('updated rounds', done)
