#!/usr/bin/env python3
"""Apply each confirmed seeded change to a SCRATCH worktree of /repo (never /repo itself), run the check of its property with
--repo <scratch>, undo, record the verdict in seeded/results.json.   usage: eval_seeds2.py [-j N] [--thorough] [names|props ...]"""
import json, os, re, subprocess, sys, glob, threading, queue
V = '/verif'
SCR = os.path.expanduser('~/.cache/verif-scratch')
args = sys.argv[1:]
jobs = 3
if '-j' in args:
    i = args.index('-j'); jobs = int(args[i + 1]); del args[i:i + 2]
tier = 'thorough' if '--thorough' in args else 'quick'
only = [a for a in args if not a.startswith('--')]
rpath = V + '/seeded/results.json'
res = json.load(open(rpath)) if os.path.exists(rpath) else {}
lock = threading.Lock()
todo = queue.Queue()
for d in sorted(glob.glob(V + '/seeded/C*-*')):
    name = os.path.basename(d)
    if only and name not in only and name.split('-')[0] not in only and not any(name.split('-')[1].startswith(o.lstrip('@')) for o in only if o.startswith('@')):
        continue
    todo.put(d)


def worker(k):
    w = os.path.join(SCR, 'eval-%d' % k)
    if not os.path.isdir(w):
        os.makedirs(SCR, exist_ok=True)
        subprocess.run(['git', '-C', '/repo', 'worktree', 'add', '--detach', w, 'HEAD', '-q'], check=True)
    while True:
        try:
            d = todo.get_nowait()
        except queue.Empty:
            return
        name = os.path.basename(d); prop = name.split('-')[0]
        subprocess.run(['git', '-C', w, 'checkout', '-q', '--detach', subprocess.run(['git', '-C', '/repo', 'rev-parse', 'HEAD'], capture_output=True, text=True).stdout.strip()])
        subprocess.run(['git', '-C', w, 'checkout', '--', '.']); subprocess.run(['git', '-C', w, 'clean', '-fdq', '-e', 'target'])
        ap = subprocess.run(['git', '-C', w, 'apply', d + '/patch.diff'], capture_output=True, text=True)
        if ap.returncode != 0:
            r = {'status': 'patch does not apply on current /repo HEAD', 'stderr': ap.stderr[-300:]}
        else:
            p = subprocess.run([V + '/check', prop, '--no-evidence', '--tier', tier, '--repo', w], capture_output=True, text=True, cwd=V)
            out = p.stdout
            viol = re.findall(r'VIOLATION property=\S+ replay=(\S+)(.*)', out)
            labels = [os.path.basename(v[0]).replace('.json', '') for v in viol]
            r = {'exit': p.returncode, 'violations': labels, 'undecided': re.findall(r'UNDECIDED: (.*)', out)[:3], 'summary': out.strip().split('\n')[-1]}
        subprocess.run(['git', '-C', w, 'checkout', '--', '.']); subprocess.run(['git', '-C', w, 'clean', '-fdq', '-e', 'target'])
        with lock:
            res[name] = r
            print(name, r.get('exit'), r.get('violations'), r.get('undecided'), flush=True)
            json.dump(res, open(rpath, 'w'), indent=1)


ths = [threading.Thread(target=worker, args=(k,)) for k in range(jobs)]
[t.start() for t in ths]; [t.join() for t in ths]
