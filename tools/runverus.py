#!/usr/bin/env python3
"""Run Verus on an assembled unit, parse results, map diagnostics to obligation labels. Cached by content hash."""
import hashlib, json, os, re, subprocess, sys, time

VERIF = os.path.dirname(os.path.dirname(os.path.abspath(__file__)))
sys.path.insert(0, os.path.join(VERIF, 'tools'))
import assemble as asm

CACHE = os.path.join(VERIF, '.cache')
VERUS_ARGS = ['--output-json', '--time', '--error-format=json', '--multiple-errors', '20', '--triggers-mode', 'silent',
              '--num-threads', '16']


def verus_version():
    try:
        return subprocess.run(['verus', '--version'], capture_output=True, text=True).stdout.strip()
    except Exception as e:
        return 'unknown'


def alt_outdir(repo):
    """assembled units of a tree other than /repo go to their own directory, so that checks of different trees can run concurrently"""
    if os.path.abspath(repo) == '/repo':
        return None
    return os.path.join(VERIF, 'build', 'alt-' + hashlib.sha256(os.path.abspath(repo).encode()).hexdigest()[:10])


def run_unit(unit, repo='/repo', mode='partial', use_cache=True, outdir=None, extra_args=None, rlimit=None):
    """Returns dict(status='ok'|'undecided', reason, meta, functions, errors, verified, n_errors, wall_s, smt_ms, cached, stubbed).

    Degraded mode (DESIGN 13.6): a function whose body cannot be brought into the verifiable subset on this tree (lost anchor,
    construct the front end rejects) is emitted as an ASSUMED contract and listed in `stubbed`; the rest of the unit is still verified,
    so a failed obligation elsewhere is still reported. Clauses of a stubbed function are undecided, never discharged."""
    t0 = time.time()
    stub = {}
    dropped = set()  # contracted functions whose contract no longer type-checks: dropped and inlined into their callers
    comb_result = set()   # R23: functions whose `map` / `and_then` closures are expanded in the Result form (Option form tried first)
    adapt = {}       # R21: function -> {parameter: 'deref' | 'ref'} (the contract passes a parameter whose reference-ness changed)
    inline = {}      # R18: function -> helpers to inline at their call sites (a helper the function calls that is not under contract)
    last = None
    outdir = outdir or alt_outdir(repo)
    for attempt in range(10):
        r = _run_once(unit, repo, mode, use_cache, outdir, extra_args, rlimit, set(stub), t0, inline, dropped, adapt, comb_result)
        if r.get('resource_limit') and not rlimit:
            # a failing (or merely slow) query ran out of the default resource budget: decide it with a four times larger one before
            # calling the unit undecided (rlimit is a deterministic z3 resource count, not wall time)
            r2 = _run_once(unit, repo, mode, use_cache, outdir, extra_args, 40, set(stub), t0, inline, dropped, adapt, comb_result)
            if r2.get('status') == 'ok' or not r2.get('resource_limit'):
                r = r2
        last = r
        if r['status'] == 'ok' or not r.get('frontend_owners'):
            break
        fresh = False
        for o, ps in (r.get('ref_adapt') or {}).items():
            for pn, how in ps.items():
                if adapt.setdefault(o, {}).get(pn) is None:
                    adapt[o][pn] = how
                    fresh = True
        amb_ = [o for o in r['frontend_owners'] if o in set((r.get('meta') or {}).get('comb_ambiguous', [])) and o not in comb_result]
        if amb_ and not fresh:
            comb_result.update(amb_)
            continue        # the Option form of an ambiguous combinator did not type-check: try the Result form (R23)
        if fresh:
            continue        # first adapt the contract text to the parameters' present reference-ness (R21), then look at what is left
        new = [o for o in r['frontend_owners'] if o not in stub]
        if not new:
            # stubbing a function did not remove the error: the error is in its CONTRACT (e.g. the contract speaks about a parameter the
            # function no longer has). Drop that function's contract and inline the function into its callers (R18), so that they are
            # checked against what it does now; its own clauses are undecided.
            esc = [o for o in r['frontend_owners'] if o in stub and o not in dropped]
            if not esc:
                break
            for o in esc:
                dropped.add(o)
                del stub[o]
            continue
        for o in new:
            why = r['frontend_owners'][o]
            mh = re.search(r'cannot find function `(\w+)` in this scope', why)
            hname = mh.group(1) if mh else None
            mm_ = re.search(r'no method named `(\w+)` found for (?:struct|enum|reference) `&?(?:\w+::)*(\w+)`', why)
            if mm_:
                hname = mm_.group(2) + '.' + mm_.group(1)      # an inherent method the unit does not know: `Type.method`
            if hname and hname not in inline.get(o, set()) and len(inline.get(o, set())) < 3:
                inline.setdefault(o, set()).add(hname)      # first try to inline the unknown helper; if that does not help the function is stubbed next round
            else:
                stub[o] = why
    if last.get('status') == 'ok':
        st = dict(last['meta'].get('stubbed', {}))
        for k, v in stub.items():
            st[k] = v
        last['stubbed'] = st
    last.pop('frontend_owners', None)
    return last


def _run_once(unit, repo, mode, use_cache, outdir, extra_args, rlimit, stub, t0, inline=None, dropped=None, adapt=None, comb_result=None):
    try:
        meta = asm.assemble(unit, repo, mode, outdir, stub=stub, inline=inline, drop=dropped, adapt=adapt, comb_result=comb_result)
    except asm.AssembleError as e:
        return {'status': 'undecided', 'reason': 'assemble: %s' % e, 'unit': unit, 'mode': mode, 'wall_s': time.time() - t0}
    text = open(meta['file']).read()
    key = hashlib.sha256((text + verus_version() + ' '.join(VERUS_ARGS + (extra_args or [])) + ('rlimit=%s' % rlimit if rlimit else '')).encode()).hexdigest()
    os.makedirs(CACHE, exist_ok=True)
    cpath = os.path.join(CACHE, 'verus-%s-%s-%s.json' % (unit, mode, key[:24]))
    args = ['verus', meta['file']] + VERUS_ARGS + (extra_args or [])
    if rlimit:
        args += ['--rlimit', str(rlimit)]
    if use_cache and os.path.isfile(cpath):
        res = json.load(open(cpath))
        res['cached'] = True
        res['meta'] = meta
        res['cmd'] = ' '.join(args) + '   (result cached by content: the same assembled text was verified earlier)'
        return res
    p = subprocess.run(args, capture_output=True, text=True, cwd=VERIF)
    wall = time.time() - t0
    res = {'unit': unit, 'mode': mode, 'cmd': ' '.join(args), 'wall_s': round(wall, 2), 'cached': False}
    try:
        out = json.loads(p.stdout)
    except Exception:
        out = None
    diags = []
    for ln in p.stderr.split('\n'):
        ln = ln.strip()
        if ln.startswith('{'):
            try:
                diags.append(json.loads(ln))
            except Exception:
                pass
    errs = [d for d in diags if d.get('level') == 'error']
    fn_ranges = [(f['out_start'], f['out_end'], f) for f in meta['functions']]

    def ref_adapt():
        """E0308 `expected T, found &T` (or the reverse) on a bare identifier inside an extracted function's text: {fn: {ident: how}}"""
        res_ = {}
        base = os.path.basename(meta['file'])
        try:
            flines = open(meta['file']).read().split('\n')
        except OSError:
            return res_
        for d in errs:
            if (d.get('code') or {}).get('code') != 'E0308':
                continue
            for sp in d.get('spans', []):
                if not sp.get('is_primary') or os.path.basename(sp.get('file_name', '')) != base or sp['line_start'] != sp['line_end']:
                    continue
                lab = sp.get('label') or ''
                m1 = re.search(r'expected `([^`&][^`]*)`, found `&\1`', lab)
                m2 = re.search(r'expected `&([^`]+)`, found `\1`', lab)
                if not (m1 or m2):
                    continue
                txt = flines[sp['line_start'] - 1][sp['column_start'] - 1:sp['column_end'] - 1]
                if not re.fullmatch(r'[a-z_]\w*', txt):
                    continue
                for a_, b_, f in fn_ranges:
                    if a_ <= sp['line_start'] <= b_:
                        res_.setdefault(f['name'], {})[txt] = 'deref' if m1 else 'ref'
        return res_

    def frontend_owners():
        """contracted functions whose BODY holds the span of a front-end error (not their signature/contract lines)"""
        own = {}
        base = os.path.basename(meta['file'])
        for d in errs:
            msg = d.get('message', '')
            if msg.startswith('aborting due to'):
                continue
            spans = [sp for sp in d.get('spans', []) if os.path.basename(sp.get('file_name', '')) == base]
            prim = [sp for sp in spans if sp.get('is_primary')] or spans
            hit = None
            for sp in prim:
                for a_, b_, f in fn_ranges:
                    if a_ <= sp['line_start'] <= b_:      # (a stubbed function still owns its contract lines: see the escalation in run_unit)
                        hit = f
                        break
                if hit:
                    break
            if hit is None:
                return {}       # an error outside every extracted body: cannot be isolated
            own[hit['name']] = 'front end: ' + msg[:200]
        return own

    if out is None or 'verification-results' not in out:
        res.update({'status': 'undecided', 'reason': 'verus produced no result (compile error in assembled text?)',
                    'stderr': p.stderr[-4000:], 'diagnostics': [d.get('rendered', d.get('message')) for d in errs][:10],
                    'frontend_owners': frontend_owners(), 'ref_adapt': ref_adapt(), 'meta': meta})
        return res
    vr = out['verification-results']
    if vr.get('encountered-vir-error') or (not vr.get('success') and vr.get('errors', 0) == 0):
        res.update({'status': 'undecided', 'reason': 'verus front-end error (unsupported construct / type error)',
                    'diagnostics': [d.get('rendered', d.get('message')) for d in errs][:10],
                    'frontend_owners': frontend_owners(), 'ref_adapt': ref_adapt(), 'meta': meta})
        return res
    funcs = {}
    smt_ms = 0
    for mt in out['times-ms'].get('smt', {}).get('smt-run-module-times', []):
        for fb in mt.get('function-breakdown', []):
            name = fb['function']
            f = funcs.setdefault(name, {'success': True, 'time_ms': 0, 'rlimit': 0})
            f['success'] = f['success'] and fb.get('success', True)
            f['time_ms'] += fb.get('time', 0)
            f['rlimit'] += fb.get('rlimit', 0)
            smt_ms += fb.get('time', 0)
    # map diagnostics to labels
    label_by_line = {l['out_line']: l for l in meta['labels']}
    thm_lines = sorted((t['out_line'], t) for t in meta['theorems'])
    nlines = len(meta['origins'])

    def owner(line):
        for a, b, f in fn_ranges:
            if a <= line <= b:
                return ('fn', f['name'], f)
        best = None
        for ol, t in thm_lines:
            if ol <= line:
                best = t
        if best:
            return ('theorem', best['name'], best)
        return (None, None, None)

    errors = []
    resource = False
    for d in errs:
        msg = d.get('message', '')
        if msg.startswith('aborting due to'):
            continue
        spans = d.get('spans', [])
        prim = [s for s in spans if s.get('is_primary')] or spans
        line = prim[0]['line_start'] if prim else None
        fname = prim[0]['file_name'] if prim else None
        in_unit = fname is not None and os.path.basename(fname) == os.path.basename(meta['file'])
        labs, own = [], (None, None, None)
        cand_lines = [s['line_start'] for s in spans if os.path.basename(s.get('file_name', '')) == os.path.basename(meta['file'])]
        for s in spans:
            if os.path.basename(s.get('file_name', '')) != os.path.basename(meta['file']):
                continue
            for l in range(s['line_start'], s['line_end'] + 1):
                if l in label_by_line and label_by_line[l] not in labs:
                    labs.append(label_by_line[l])
        if cand_lines:
            own = owner(min(cand_lines) if not in_unit else line)
            if own[0] is None:
                for cl in cand_lines:
                    own = owner(cl)
                    if own[0]:
                        break
        if 'rlimit' in msg or 'resource limit' in msg or 'timed out' in msg.lower():
            resource = True
        origin = meta['origins'][line - 1] if (in_unit and line and line <= nlines) else None
        errors.append({'message': msg, 'line': line if in_unit else None, 'origin': origin,
                       'labels': [{'name': l['name'], 'props': l['props'], 'spec': l['spec']} for l in labs],
                       'owner_kind': own[0], 'owner': own[1],
                       'owner_props': (own[2].get('props') if own[2] and 'props' in own[2] else None),
                       'rendered': d.get('rendered', '')[:3000]})
    res.update({'status': 'ok', 'verified': vr.get('verified', 0), 'n_errors': vr.get('errors', 0),
                'functions': funcs, 'errors': errors, 'smt_ms': smt_ms, 'resource_limit': resource,
                'total_ms': out['times-ms'].get('total')})
    if resource:
        res['status'] = 'undecided'
        res['reason'] = 'resource limit / timeout in solver'
    with open(cpath, 'w') as f:
        json.dump(res, f)
    res['meta'] = meta
    return res


def shadow_run(unit, repo='/repo', mode='partial'):
    """Vacuity guard (DESIGN §11b): copy of the unit where every contracted function additionally ensures
    `r is Ok ==> false` (Result-returning) or `false`; every one of them must FAIL. A function for which the shadow
    clause verifies has a contradictory precondition / assumed contract, or no reachable Ok path."""
    import re as _re
    meta = asm.assemble(unit, repo, mode, alt_outdir(repo))
    lines = open(meta['file']).read().split('\n')
    targets = {}
    for f in meta['functions']:
        a, b = f['out_start'] - 1, f['out_end']
        sig_end = None
        is_result = False
        for i in range(a, min(b, a + 40)):
            if 'Result<' in lines[i] or 'StdResult' in lines[i]:
                is_result = True
            st_ = lines[i].strip()
            if st_ == 'ensures' or st_.startswith('ensures '):
                sig_end = i
                break
            if st_ == '{' or st_.endswith('{'):
                break
        if sig_end is None:
            continue
        idx = len(targets) + 1
        clause = ('(r is Ok ==> !shadow_flag(%d))' % idx) if is_result else ('!shadow_flag(%d)' % idx)
        if lines[sig_end].strip() == 'ensures':
            lines[sig_end] = lines[sig_end] + ' ' + clause + ', /*SHADOW*/'
        else:
            lines[sig_end] = lines[sig_end].replace('ensures ', 'ensures ' + clause + ', /*SHADOW*/ ', 1)
        targets[f['name']] = sig_end + 1
    spath = meta['file'].replace('.rs', '_shadow.rs')
    text = '\n'.join(lines).replace('pub mod unit {', 'pub mod unit {\npub uninterp spec fn shadow_flag(i: int) -> bool;', 1)
    off = 1
    targets = {k: v + off for k, v in targets.items()}
    open(spath, 'w').write(text)
    p = subprocess.run(['verus', spath] + VERUS_ARGS, capture_output=True, text=True, cwd=VERIF)
    try:
        out = json.loads(p.stdout)
        vr = out['verification-results']
        if vr.get('encountered-vir-error') or vr.get('verified', 0) + vr.get('errors', 0) == 0:
            raise ValueError('no verification happened')
    except Exception:
        return {'status': 'undecided', 'reason': 'shadow unit did not compile', 'stderr': p.stderr[-2000:]}
    failed_lines = set()
    for ln in p.stderr.split('\n'):
        if ln.startswith('{'):
            try:
                d = json.loads(ln)
            except Exception:
                continue
            if d.get('level') == 'error':
                for sp in d.get('spans', []):
                    if os.path.basename(sp.get('file_name', '')) == os.path.basename(spath):
                        for l in range(sp['line_start'], sp['line_end'] + 1):
                            failed_lines.add(l)
    vacuous = [n for n, l in targets.items() if l not in failed_lines]
    return {'status': 'ok', 'checked': len(targets), 'vacuous': vacuous}


if __name__ == '__main__':
    import argparse
    ap = argparse.ArgumentParser()
    ap.add_argument('unit')
    ap.add_argument('--repo', default='/repo')
    ap.add_argument('--mode', default='partial')
    ap.add_argument('--no-cache', action='store_true')
    ap.add_argument('--shadow', action='store_true')
    a = ap.parse_args()
    if a.shadow:
        print(shadow_run(a.unit, a.repo, a.mode))
        sys.exit(0)
    r = run_unit(a.unit, a.repo, a.mode, use_cache=not a.no_cache)
    r.pop('meta', None)
    if r['status'] != 'ok':
        print('UNDECIDED:', r.get('reason'))
        for d in r.get('diagnostics', [])[:8]:
            print(d)
        for e in r.get('errors', []):
            print('-', e['message'], '| owner:', e['owner'], '| labels:', [l['name'] for l in e['labels']], '|', e['origin'])
        sys.exit(2)
    print('verified', r['verified'], 'errors', r['n_errors'], 'wall', r['wall_s'], 'cached', r['cached'], 'stubbed', r.get('stubbed'))
    for e in r['errors']:
        print('-', e['message'], '| owner:', e['owner'], '| labels:', [l['name'] for l in e['labels']], '|', e['origin'])
        if not e['labels']:
            print(e['rendered'])
    sys.exit(1 if r['n_errors'] else 0)
