#!/usr/bin/env python3
"""Assemble a Verus unit from /repo sources + shim + spec template (DESIGN §3, §4).

Template directives (lines starting with //@):
  //@include <path under /verif>
  //@type <repo file> <Name> [as <NewName>] [derive(A,B,..)] [noclone]
  //@const <repo file> <NAME>
  //@filerename <repo file> Old=New [Old=New ...]
  //@fn <repo file> [<impl header>::]<name> [as <newname>] [total]
      <contract clauses: requires/ensures/decreases ...>       (labels: trailing `//# C01,C17 name`)
      //@loop <n>            following lines: invariant/decreases clauses for the n-th loop (0-based)
      //@after <k> <stmt>    following lines: proof text spliced after k-th (0-based) occurrence of stmt
      //@atstart             following lines: proof text spliced at the start of the body
      //@rename Old=New      token renames for this function only
      //@sub <old text> ==> <new text>   declared, counted textual rewrite (must match exactly once)
  //@end

Every anchor that cannot be found, and every rewrite that matches an unexpected number of times, raises
AssembleError -> the check exits 2 (undecided), never a violation.
"""
import json, os, re, sys, hashlib

VERIF = os.path.dirname(os.path.dirname(os.path.abspath(__file__)))


class AssembleError(Exception):
    pass


# ---------------------------------------------------------------- scanning helpers
def skip_noncode(src, i):
    """If src[i:] starts a comment/string/char literal, return index just after it, else None."""
    n = len(src)
    c = src[i]
    if c == '/' and i + 1 < n:
        if src[i + 1] == '/':
            j = src.find('\n', i)
            return n if j < 0 else j
        if src[i + 1] == '*':
            depth, j = 1, i + 2
            while j < n and depth:
                if src.startswith('/*', j):
                    depth += 1; j += 2
                elif src.startswith('*/', j):
                    depth -= 1; j += 2
                else:
                    j += 1
            return j
    if c == '"':
        j = i + 1
        while j < n:
            if src[j] == '\\':
                j += 2
            elif src[j] == '"':
                return j + 1
            else:
                j += 1
        return n
    if c == 'r' and i + 1 < n and src[i + 1] in '#"' and (i == 0 or not (src[i - 1].isalnum() or src[i - 1] == '_')):
        m = re.match(r'r(#*)"', src[i:])
        if m:
            end = '"' + m.group(1)
            j = src.find(end, i + len(m.group(0)))
            return n if j < 0 else j + len(end)
    if c == "'":
        # char literal or lifetime
        m = re.match(r"'(\\.[^']*|[^'\\])'", src[i:])
        if m:
            return i + len(m.group(0))
        return None
    return None


def string_literals(src):
    """Plain (non-raw) string literals of src, outside comments, in order of appearance, without duplicates."""
    out, i, n = [], 0, len(src)
    while i < n:
        j = skip_noncode(src, i)
        if j is not None:
            if src[i] == '"':
                lit = src[i + 1:j - 1]
                if lit not in out:
                    out.append(lit)
            i = j
        else:
            i += 1
    return out


def strlit_prelude(keys, body):
    """R16: string literals are opaque to the verifier until revealed. For the listed attribute keys, emit a proof block that
    reveals them and every plain ASCII literal of the body and asserts that each key differs from each other literal (by length, or
    by the first differing character): checked hints, not assumptions. A new literal in the body therefore never makes a
    'this key occurs once' clause unprovable."""
    lits = [l for l in string_literals(body) if '\\' not in l and all(32 <= ord(ch) < 127 for ch in l) and '{' not in l]
    allv = list(dict.fromkeys(list(keys) + lits))
    lines = ['    proof {']
    lines.append('        ' + ' '.join('reveal_strlit("%s");' % l for l in allv))
    for k in keys:
        for l in allv:
            if l == k:
                continue
            if len(l) != len(k):
                lines.append('        assert("%s"@.len() == %d && "%s"@.len() == %d); assert("%s"@ != "%s"@);' % (k, len(k), l, len(l), k, l))
            else:
                d = next(i for i in range(len(k)) if k[i] != l[i])
                lines.append('        assert("%s"@[%d] != "%s"@[%d]); assert("%s"@ != "%s"@);' % (k, d, l, d, k, l))
    lines.append('    }')
    return '\n'.join(lines)


def match_close(src, i, open_ch='{', close_ch='}'):
    """src[i] == open_ch; return index of matching close_ch."""
    assert src[i] == open_ch, (src[i:i + 20], open_ch)
    depth, j, n = 0, i, len(src)
    while j < n:
        k = skip_noncode(src, j)
        if k is not None:
            j = k
            continue
        c = src[j]
        if c == open_ch:
            depth += 1
        elif c == close_ch:
            depth -= 1
            if depth == 0:
                return j
        j += 1
    raise AssembleError('unbalanced %s at offset %d' % (open_ch, i))


def code_positions(src, pattern, start=0, end=None):
    """Yield match objects of regex `pattern` in src[start:end] that begin in code (not comment/string)."""
    end = len(src) if end is None else end
    rx = re.compile(pattern)
    j = start
    # build list of non-code spans lazily
    spans = []
    i = start
    while i < end:
        k = skip_noncode(src, i)
        if k is not None:
            spans.append((i, k))
            i = k
        else:
            i += 1
    def in_noncode(p):
        for a, b in spans:
            if a <= p < b:
                return True
        return False
    for m in rx.finditer(src, start, end):
        if not in_noncode(m.start()):
            yield m


def strip_comments(src):
    out, i, n = [], 0, len(src)
    while i < n:
        if src.startswith('//', i):
            j = src.find('\n', i)
            i = n if j < 0 else j
            continue
        if src.startswith('/*', i):
            k = skip_noncode(src, i)
            i = k
            continue
        k = skip_noncode(src, i)
        if k is not None:
            out.append(src[i:k]); i = k
            continue
        out.append(src[i]); i += 1
    return ''.join(out)


def norm_ws(s):
    return re.sub(r'\s+', ' ', s).strip()


# ---------------------------------------------------------------- item extraction
def find_impl_block(src, header):
    hdr = norm_ws(header)
    for m in code_positions(src, r'\bimpl\b'):
        b = src.find('{', m.start())
        if b < 0:
            continue
        if norm_ws(src[m.start():b]) == hdr:
            e = match_close(src, b)
            return b + 1, e
    raise AssembleError('impl block not found: %r' % header)


def find_fn(src, name, start=0, end=None, depth0_only=True):
    end = len(src) if end is None else end
    cands = []
    for m in code_positions(src, r'\bfn\s+' + re.escape(name) + r'\b', start, end):
        # item start: walk back over visibility / qualifiers on the same logical line
        ls = src.rfind('\n', 0, m.start()) + 1
        prefix = src[ls:m.start()]
        if not re.fullmatch(r'\s*(pub(\([a-z]+\))?\s+)?(const\s+)?', prefix):
            continue
        # brace depth relative to [start,end)
        if depth0_only:
            d = 0
            j = start
            while j < m.start():
                k = skip_noncode(src, j)
                if k is not None:
                    j = k; continue
                if src[j] == '{': d += 1
                elif src[j] == '}': d -= 1
                j += 1
            if d != 0:
                continue
        cands.append((ls, m))
    if len(cands) != 1:
        raise AssembleError('fn %s: expected exactly one definition, found %d' % (name, len(cands)))
    ls, m = cands[0]
    # body open brace: first '{' at paren depth 0 after the fn keyword
    j, pd = m.end(), 0
    while j < end:
        k = skip_noncode(src, j)
        if k is not None:
            j = k; continue
        c = src[j]
        if c in '([': pd += 1
        elif c in ')]': pd -= 1
        elif c == '{' and pd == 0:
            break
        elif c == ';' and pd == 0:
            raise AssembleError('fn %s has no body' % name)
        j += 1
    b = j
    e = match_close(src, b)
    return ls, b, e  # signature = src[ls:b], body = src[b:e+1]


def line_of(src, off):
    return src.count('\n', 0, off) + 1


def find_type(src, name):
    ms = list(code_positions(src, r'\b(pub\s+)?(struct|enum)\s+' + re.escape(name) + r'\b'))
    if len(ms) != 1:
        raise AssembleError('type %s: expected one definition, found %d' % (name, len(ms)))
    m = ms[0]
    ls = src.rfind('\n', 0, m.start()) + 1
    # include preceding attribute / doc lines
    start = ls
    while True:
        pl_end = start - 1
        if pl_end <= 0:
            break
        pl_start = src.rfind('\n', 0, pl_end) + 1
        line = src[pl_start:pl_end].strip()
        if line.startswith('#[') or line.startswith('///') or line.startswith('//'):
            start = pl_start
        else:
            break
    j = m.end()
    while src[j] not in '{;(':
        j += 1
    if src[j] == '{':
        e = match_close(src, j) + 1
    elif src[j] == '(':
        e = match_close(src, j, '(', ')')
        e = src.find(';', e) + 1
    else:
        e = j + 1
    return start, ls, e


KEEP_DERIVES = ['Clone', 'Copy', 'Debug', 'PartialEq', 'Eq', 'Default']


def rewrite_type(text, kind_name, newname, derive_override, stats):
    """R1: derive/serde attributes."""
    lines = text.split('\n')
    out, derives = [], None
    for ln in lines:
        s = ln.strip()
        if s.startswith('#[derive('):
            derives = [d.strip() for d in s[len('#[derive('):s.rfind(')')].split(',') if d.strip()]
            stats['R1_derive'] = stats.get('R1_derive', 0) + 1
            continue
        if s.startswith('#[serde(') or s.startswith('#[allow(') or s.startswith('///') or s.startswith('#[schemars('):
            stats['R1_attr'] = stats.get('R1_attr', 0) + 1
            continue
        if s.startswith('//'):
            continue
        out.append(ln)
    return '\n'.join(out), derives or []


# ---------------------------------------------------------------- body rewrites
def apply_counted(rx, repl, text, stats, key, flags=0):
    new, n = re.subn(rx, repl, text, flags=flags)
    if n:
        stats[key] = stats.get(key, 0) + n
    return new


def replace_balanced(text, head_rx, open_ch, close_ch, repl, stats, key):
    """Replace `<head><open>...<close>` (balanced) with repl."""
    while True:
        ms = list(code_positions(text, head_rx))
        if not ms:
            return text
        m = ms[0]
        o = m.end() - 1
        assert text[o] == open_ch, (text[m.start():m.end()], open_ch)
        e = match_close(text, o, open_ch, close_ch)
        text = text[:m.start()] + repl + text[e + 1:]
        stats[key] = stats.get(key, 0) + 1


def rewrite_body(body, mode, stats):
    # R7: attributes on statements / items
    body = apply_counted(r'(?m)^[ \t]*#\[allow\([^\]]*\)\]\s*\n', '', body, stats, 'R7_allow')
    # R6: map_err(|error| StdError::generic_err(format!("{}", error)))
    body = apply_counted(r'\.map_err\(\s*\|error\|\s*StdError::generic_err\(\s*format!\(\s*"\{\}"\s*,\s*error\s*\)\s*\)\s*\)',
                         '.map_err_erased()', body, stats, 'R6_map_err')
    # R6: map_err(|e| StdError::generic_err(<any message>)) -> map_err_erased(): Ok is kept, an Err becomes some StdError (error texts are
    # not modelled: no contract speaks about one)
    body = replace_balanced(body, r'\.map_err\(\s*\|\s*\w+\s*\|\s*StdError::generic_err\(', '(', ')', '.map_err_erased(', stats, 'R6_map_err')
    # R6: generic_err(format!(..)) -> generic_err("")
    body = replace_balanced(body, r'StdError::generic_err\(\s*format!\(', '(', ')', 'StdError::generic_err("" /*erased*/', stats, 'R6_format')
    # the replace above consumed "format!( ... )" only; the closing paren of generic_err stays
    # R8: error struct literals
    body = replace_balanced(body, r'(?<!-> )(?<!->)\bOverflowError\s*\{', '{', '}', 'OverflowError::erased()', stats, 'R8_overflow_lit')   # (not a closure's `-> OverflowError {` return type)
    body = replace_balanced(body, r'\bStdError::GenericErr\s*\{', '{', '}', 'StdError::erased()', stats, 'R8_generic_lit')
    body = replace_balanced(body, r'(?<![:\w])GenericErr\s*\{', '{', '}', 'StdError::erased()', stats, 'R8_generic_lit')
    # R11: cosmwasm_storage typed-cell primitives -> per-key shim primitives
    body = apply_counted(r'singleton_read\(\s*([\w.]+)\s*,\s*(KEY_\w+)\s*\)\s*\.load\(\)', r'singleton_load__\2(\1)', body, stats, 'R11_storage_prim')
    body = apply_counted(r'singleton_read\(\s*([\w.]+)\s*,\s*(KEY_\w+)\s*\)\s*\.may_load\(\)', r'singleton_may_load__\2(\1)', body, stats, 'R11_storage_prim')
    body = apply_counted(r'singleton\(\s*([\w.]+)\s*,\s*(KEY_\w+)\s*\)\s*\.save\(\s*([^()]*?)\s*\)', r'singleton_save__\2(\1, \3)', body, stats, 'R11_storage_prim')
    body = apply_counted(r'&\s*(\w+)\.to_be_bytes\(\)', r'be_key(\1)', body, stats, 'R11_be_key')
    body = apply_counted(r'bucket_read\(\s*([\w.]+)\s*,\s*(KEY_\w+)\s*\)\s*\.load\(', r'bucket_load__\2(\1, ', body, stats, 'R11_storage_prim')
    body = apply_counted(r'bucket\(\s*([\w.]+)\s*,\s*(KEY_\w+)\s*\)\s*\.save\(', r'bucket_save__\2(\1, ', body, stats, 'R11_storage_prim')
    body = apply_counted(r'let\s+mut\s+store\s*:\s*Singleton<\w+>\s*=\s*singleton\(\s*(\w+)\s*,\s*(KEY_\w+)\s*\)\s*;\s*store\.remove\(\)', r'singleton_remove__\2(\1)', body, stats, 'R11_storage_prim')
    # R11: the engine's position bucket (helper fns position_bucket / position_bucket_read wrap bucket(storage, KEY_POSITION)), any key variable
    body = apply_counted(r'position_bucket\(\s*([\w.]+)\s*\)\s*\.save\(', r'position_bucket_save(\1, ', body, stats, 'R11_storage_prim')
    body = apply_counted(r'position_bucket\(\s*([\w.]+)\s*\)\s*\.remove\(', r'position_bucket_remove(\1, ', body, stats, 'R11_storage_prim')
    body = apply_counted(r'position_bucket_read\(\s*([\w.]+)\s*\)\s*\.may_load\(', r'position_bucket_may_load(\1, ', body, stats, 'R11_storage_prim')
    # R11: the engine's per-vAMM bucket (helper fns vamm_map_bucket / vamm_map_bucket_read wrap bucket(storage, KEY_VAMM_MAP))
    body = apply_counted(r'vamm_map_bucket\(\s*([\w.]+)\s*\)\s*\.save\(', r'bucket_save__KEY_VAMM_MAP(\1, ', body, stats, 'R11_storage_prim')
    body = apply_counted(r'vamm_map_bucket_read\(\s*([\w.]+)\s*\)\s*\.may_load\(', r'bucket_may_load__KEY_VAMM_MAP(\1, ', body, stats, 'R11_storage_prim')
    # R11: cw_storage_plus Item / Map constants
    body = apply_counted(r'\b([A-Z][A-Z_]+)\s*\.\s*may_load\(', r'item_may_load__\1(', body, stats, 'R11_storage_prim')
    body = apply_counted(r'\b([A-Z][A-Z_]+)\s*\.\s*save\(', r'item_save__\1(', body, stats, 'R11_storage_prim')
    # R17: `match <e>.as_str() { "lit" => a, .., _ => d }` -> `if str_is(<e>.as_str(), "lit") { a } else .. else { d }`
    # (this Verus knows of a string-literal pattern only "arm taken => text equal"; the if-chain over a string-equality test with the
    # exact spec `r == (a@ == b@)` gives both directions; same arms, same order, same bodies)
    body = rewrite_str_match(body, stats)
    # R19: `loop { if C { break; } REST }` -> `while !(C) { REST }` (the same loop; loop specifications are written for the `while` form)
    body = rewrite_loop_leading_break(body, stats)
    # R20: locally bound closures that are only called are beta-reduced (a closure's result is opaque to this verifier)
    body = rewrite_local_closures(body, stats)
    # R9: unwrap -> unwrap_or_abort (partial mode)
    if mode == 'partial':
        body = apply_counted(r'\.unwrap\(\)', '.unwrap_or_abort()', body, stats, 'R9_unwrap')
    return body


def rewrite_loop_leading_break(body, stats):
    out = body
    for _ in range(8):
        done = False
        for m in code_positions(out, r'\bloop\s*\{'):
            ob = m.end() - 1
            cb = match_close(out, ob)
            inner = out[ob + 1:cb]
            stripped = strip_comments(inner)
            mm = re.match(r'\s*if\s+', stripped)
            if not mm:
                continue
            # work on the comment-free text of the loop body (comments carry no behaviour)
            k = mm.end()
            # condition up to the `{` at paren depth 0
            q, pd = k, 0
            while q < len(stripped):
                if stripped[q] in '([':
                    pd += 1
                elif stripped[q] in ')]':
                    pd -= 1
                elif stripped[q] == '{' and pd == 0:
                    break
                q += 1
            if q >= len(stripped):
                continue
            e = match_close(stripped, q)
            if not re.fullmatch(r'\s*break\s*;?\s*', stripped[q + 1:e]):
                continue
            rest = stripped[e + 1:]
            if rest.lstrip().startswith('else'):
                continue
            cond = stripped[k:q].strip()
            out = out[:m.start()] + 'while !(' + cond + ') {' + rest + '}' + out[cb + 1:]
            stats['R19_loop_leading_break'] = stats.get('R19_loop_leading_break', 0) + 1
            done = True
            break
        if not done:
            break
    return out


def rewrite_local_closures(body, stats):
    """R20: a closure bound by `let f = |p1: T1, ..| [-> R] BODY;` that is only ever CALLED (`f(a1, ..)`) is beta-reduced at each call:
    `{ let __c_f_1: T1 = a1; ..; { let p1: T1 = __c_f_1; ..; let __c_f_r[: R] = BODY; __c_f_r } }` and the binding is removed. Not
    `move` (a by-reference capture cannot change between the binding and the calls, the borrow checker sees to that), no `return` and
    no `?` in BODY (they would leave the closure, not the function), no later `let` that shadows a name BODY uses. Anything else keeps
    the closure and the function leaves the subset (degraded mode)."""
    out = strip_comments(body) if re.search(r'\blet\s+\w+\s*=\s*\|', strip_comments(body)) else None
    if out is None:
        return body
    for _ in range(6):
        ms = list(code_positions(out, r'\blet\s+(\w+)\s*=\s*\|([^|]*)\|\s*(->\s*[^{;]+?(?=\s*\{))?\s*(?=\S)'))
        if not ms:
            break
        m = ms[0]
        name, params, ret = m.group(1), m.group(2), (m.group(3) or '').replace('->', '').strip()
        k = m.end()
        if out[k] == '{':
            e = match_close(out, k)
            cbody = out[k:e + 1]
            q = e + 1
            mm = re.match(r'\s*;', out[q:])
            if not mm:
                return body
            stmt_end = q + mm.end()
        else:
            if ret:
                return body
            q, d = k, 0
            while q < len(out):
                kk = skip_noncode(out, q)
                if kk is not None:
                    q = kk; continue
                if out[q] in '([{':
                    d += 1
                elif out[q] in ')]}':
                    d -= 1
                elif out[q] == ';' and d == 0:
                    break
                q += 1
            if q >= len(out):
                return body
            cbody = out[k:q].strip()
            stmt_end = q + 1
        if re.search(r'\breturn\b|\?', cbody):
            return body
        plist = []
        for prm in split_top_commas(params):
            pm = re.fullmatch(r'(?:mut\s+)?(\w+)\s*(?::\s*(.+))?', prm.strip(), re.S)
            if not pm or pm.group(1) == '_':
                return body
            plist.append((pm.group(1), (pm.group(2) or '').strip()))
        rest = out[stmt_end:]
        # every later occurrence of the name is a call
        uses = list(code_positions(rest, r'(?<![\w.])' + re.escape(name) + r'\b'))
        if not uses or any(not re.match(r'\s*\(', rest[u.end():]) for u in uses):
            return body
        if re.search(r'(?<![\w.])' + re.escape(name) + r'\b', out[:m.start()]):
            pass    # an earlier binding of the same name is shadowed by this one; calls after it mean this one
        body_idents = set(re.findall(r'\b[a-z_]\w*\b', cbody)) - {pn for pn, _ in plist}
        later_lets = set(re.findall(r'\blet\s+(?:mut\s+)?(\w+)', rest))
        if body_idents & later_lets:
            return body
        # replace calls back to front
        new_rest = rest
        for u in reversed(uses):
            ob = u.end() + re.match(r'\s*', new_rest[u.end():]).end()
            cb = match_close(new_rest, ob, '(', ')')
            args = split_top_commas(new_rest[ob + 1:cb])
            if len(args) != len(plist):
                return body
            pre = ''.join('let __c_%s_%d%s = %s; ' % (name, i_, (': ' + t_) if t_ else '', a_) for i_, ((pn, t_), a_) in enumerate(zip(plist, args)))
            inner = ''.join('let %s%s = __c_%s_%d; ' % (pn, (': ' + t_) if t_ else '', name, i_) for i_, (pn, t_) in enumerate(plist))
            rep = '({ %s{ %slet __c_%s_r%s = %s; __c_%s_r } })' % (pre, inner, name, (': ' + ret) if ret else '', cbody, name)
            new_rest = new_rest[:u.start()] + rep + new_rest[cb + 1:]
        out = out[:m.start()] + '/* R20: closure ' + name + ' beta-reduced at its calls */' + new_rest
        stats['R20_local_closure'] = stats.get('R20_local_closure', 0) + 1
    return out


def _recv_start(text, dot):
    """Start offset of the postfix expression that ends right before the `.` at text[dot] (identifier / path / field / method-call /
    index / `?` chain), or None when it is not such a plain chain."""
    i = dot - 1
    while True:
        while i >= 0 and text[i].isspace():
            i -= 1
        if i < 0:
            return None
        c = text[i]
        if c == '?':
            i -= 1
            continue
        if c in ')]':
            op = '(' if c == ')' else '['
            d, k = 0, i
            while k >= 0:
                if text[k] in '"\'':
                    return None
                if text[k] == c:
                    d += 1
                elif text[k] == op:
                    d -= 1
                    if d == 0:
                        break
                k -= 1
            if k < 0:
                return None
            i = k - 1
            while i >= 0 and text[i].isspace():
                i -= 1
            if i >= 0 and text[i] == '>' and c == ')':
                # turbofish `name::<T, U>(..)`
                d, k = 0, i
                while k >= 0:
                    if text[k] == '>' and text[k - 1:k] != '-':
                        d += 1
                    elif text[k] == '<':
                        d -= 1
                        if d == 0:
                            break
                    k -= 1
                if k < 2 or text[k - 2:k] != '::':
                    return None
                i = k - 3
                while i >= 0 and text[i].isspace():
                    i -= 1
            if i < 0 or not (text[i].isalnum() or text[i] == '_'):
                return None      # a parenthesised expression / tuple / array literal as receiver: not handled
            c = text[i]
        if c.isalnum() or c == '_':
            while i >= 0 and (text[i].isalnum() or text[i] == '_'):
                i -= 1
            start = i + 1
            k = i
            while k >= 0 and text[k].isspace():
                k -= 1
            if k >= 0 and text[k] == '.' and not (k >= 1 and text[k - 1] == '.'):
                i = k - 1
                continue
            if k >= 1 and text[k] == ':' and text[k - 1] == ':':
                i = k - 2
                continue
            return start
        return None


def _last_call_name(recv):
    """name of the last method / function called in a postfix chain (`a.b(c).d(e)?` -> `d`), or None"""
    t = recv.rstrip()
    while t.endswith('?'):
        t = t[:-1].rstrip()
    if not t.endswith(')'):
        return None
    d, k = 0, len(t) - 1
    while k >= 0:
        if t[k] == ')':
            d += 1
        elif t[k] == '(':
            d -= 1
            if d == 0:
                break
        k -= 1
    mm = re.search(r'(\w+)\s*(?:::\s*<[^()]*>)?\s*$', t[:k])
    return mm.group(1) if mm else None


COMBINATORS = {
    # name: (closure arity or None for "either", form(s))
    'ok_or_else': 'option', 'map_err': 'result', 'map': 'either', 'and_then': 'either', 'unwrap_or_else': 'arity', 'or_else': 'arity',
}


def rewrite_combinators(body, stats, prefer='option'):
    """R23: `recv.map(|x| E)`, `.and_then(|x| E)`, `.ok_or_else(|| E)`, `.map_err(|e| E)`, `.unwrap_or_else(..)`, `.or_else(..)` on an
    Option / Result become the `match` they abbreviate, e.g. `(match recv { Some(x) => Some(E), None => None })` - a closure's result
    is opaque to this verifier, a match arm is not. Only when the closure body holds no `?` / `return` (they would leave the closure) and
    the receiver is a plain postfix chain. `map` / `and_then` exist on both types: `prefer` says which form to emit, the retry loop of
    tools/runverus.py switches to the other one when the first does not type-check. Returns (text, ambiguous?)."""
    out = body
    amb = False
    if not re.search(r'\.\s*(?:ok_or_else|map_err|map|and_then|unwrap_or_else|or_else)\s*\(\s*(?:move\s+)?\|', strip_comments(out)):
        return body, False
    out = strip_comments(out)
    for _ in range(12):
        ms = list(code_positions(out, r'\.\s*(ok_or_else|map_err|map|and_then|unwrap_or_else|or_else)\s*\(\s*(?:move\s+)?\|([^|]*)\|\s*'))
        if not ms:
            break
        m = ms[-1]          # innermost / last first: its receiver holds no un-rewritten combinator closure to its right
        name, params = m.group(1), m.group(2).strip()
        po = out.index('(', m.start())
        pc = match_close(out, po, '(', ')')
        cbody = out[m.end():pc].strip()
        if cbody.endswith(','):
            cbody = cbody[:-1].rstrip()
        if re.search(r'\breturn\b|\?|^->', cbody) or not cbody:
            return body, False
        rs = _recv_start(out, m.start())
        if rs is None:
            return body, False
        recv = out[rs:m.start()]
        if _last_call_name(recv) in ('iter', 'into_iter', 'iter_mut', 'chars', 'bytes', 'keys', 'values', 'range', 'enumerate', 'zip', 'filter', 'rev', 'skip', 'take',
                                     'filter_map', 'flat_map', 'lines', 'split', 'drain', 'windows', 'chunks'):
            return body, False      # an iterator adapter chain, not an Option / Result
        plist = [p_.strip() for p_ in split_top_commas(params)] if params else []
        pat = None
        if len(plist) == 1:
            pat = re.sub(r'\s*:\s*[^,()]+$', '', plist[0]) if not plist[0].startswith('(') else plist[0]
            pat = re.sub(r'^mut\s+', '', pat)
        elif len(plist) > 1:
            return body, False
        kind = COMBINATORS[name]
        form = None
        if kind in ('option', 'result'):
            form = kind
        elif kind == 'arity':
            form = 'option' if pat is None else 'result'
        else:
            form = prefer
            amb = True
        if name == 'ok_or_else':
            if pat is not None: return body, False
            rep = '(match %s { Some(__v) => Ok(__v), None => Err(%s) })' % (recv, cbody)
        elif name == 'map_err':
            if pat is None: return body, False
            rep = '(match %s { Ok(__v) => Ok(__v), Err(%s) => Err(%s) })' % (recv, pat, cbody)
        elif name == 'map':
            if pat is None: return body, False
            rep = ('(match %s { Some(%s) => Some(%s), None => None })' if form == 'option' else '(match %s { Ok(%s) => Ok(%s), Err(__e) => Err(__e) })') % (recv, pat, cbody)
        elif name == 'and_then':
            if pat is None: return body, False
            rep = ('(match %s { Some(%s) => %s, None => None })' if form == 'option' else '(match %s { Ok(%s) => %s, Err(__e) => Err(__e) })') % (recv, pat, cbody)
        elif name == 'unwrap_or_else':
            rep = ('(match %s { Some(__v) => __v, None => %s })' % (recv, cbody)) if pat is None else ('(match %s { Ok(__v) => __v, Err(%s) => %s })' % (recv, pat, cbody))
        else:   # or_else
            rep = ('(match %s { Some(__v) => Some(__v), None => %s })' % (recv, cbody)) if pat is None else ('(match %s { Ok(__v) => Ok(__v), Err(%s) => %s })' % (recv, pat, cbody))
        out = out[:rs] + rep + out[pc + 1:]
        stats['R23_combinator_match'] = stats.get('R23_combinator_match', 0) + 1
    return out, amb


def rewrite_str_match(body, stats):
    out = body
    guard = 0
    while guard < 20:
        guard += 1
        ms = list(code_positions(out, r'\bmatch\s+([A-Za-z_][\w.]*)\.as_str\(\)\s*\{'))
        if not ms:
            break
        done = False
        for m in ms:
            ob = m.end() - 1
            cb = match_close(out, ob)
            inner = out[ob + 1:cb]
            arms, k, ok = [], 0, True
            while True:
                while k < len(inner) and inner[k].isspace():
                    k += 1
                if k >= len(inner):
                    break
                # comments between arms
                nc = skip_noncode(inner, k)
                if nc is not None and inner[k] == '/':
                    k = nc
                    continue
                pm = re.match(r'((?:"(?:[^"\\]|\\.)*"\s*\|\s*)*"(?:[^"\\]|\\.)*"|_)\s*=>\s*', inner[k:])
                if not pm:
                    ok = False
                    break
                pats = re.findall(r'"(?:[^"\\]|\\.)*"', pm.group(1)) if pm.group(1) != '_' else None
                k += pm.end()
                if k < len(inner) and inner[k] == '{':
                    e = match_close(inner, k)
                    arm_body = inner[k:e + 1]
                    k = e + 1
                    while k < len(inner) and inner[k].isspace():
                        k += 1
                    if k < len(inner) and inner[k] == ',':
                        k += 1
                else:
                    depth, e = 0, k
                    while e < len(inner):
                        nc = skip_noncode(inner, e)
                        if nc is not None:
                            e = nc
                            continue
                        ch = inner[e]
                        if ch in '([{':
                            depth += 1
                        elif ch in ')]}':
                            depth -= 1
                        elif ch == ',' and depth == 0:
                            break
                        e += 1
                    arm_body = '{ ' + inner[k:e].strip() + ' }'
                    k = e + 1
                arms.append((pats, arm_body))
            if not ok or not arms or arms[-1][0] is not None or any(a[0] is None for a in arms[:-1]):
                continue
            subj = m.group(1) + '.as_str()'
            parts = []
            for pats, arm_body in arms[:-1]:
                cond = ' || '.join('str_is(%s, %s)' % (subj, p_) for p_ in pats)
                parts.append('if %s %s' % (cond, arm_body))
            chain = ' else '.join(parts) + ' else ' + arms[-1][1]
            out = out[:m.start()] + chain + out[cb + 1:]
            stats['R17_str_match'] = stats.get('R17_str_match', 0) + 1
            done = True
            break
        if not done:
            break
    return out


def split_top_commas(text):
    parts, depth, cur, i = [], 0, [], 0
    while i < len(text):
        k = skip_noncode(text, i)
        if k is not None:
            cur.append(text[i:k]); i = k; continue
        c = text[i]
        if c in '([{':
            depth += 1
        elif c in ')]}':
            depth -= 1
        elif c == '<' and re.match(r'[\w:]', text[i - 1:i] or ' '):
            pass
        if c == ',' and depth == 0:
            parts.append(''.join(cur)); cur = []
        else:
            cur.append(c)
        i += 1
    if ''.join(cur).strip():
        parts.append(''.join(cur))
    return [p.strip() for p in parts]


def guard_clauses_to_else(block):
    """`{ a; if c { return X; } b; t }` -> `{ a; if c { X } else { b; t } }` for guard clauses at the top level of the block (an `if` without
    `else` whose block is a single `return`): the same control flow without an early return. Applied repeatedly; anything else is left."""
    assert block[0] == '{' and block.rstrip()[-1] == '}'
    inner_end = len(block.rstrip()) - 1
    for _ in range(12):
        found = None
        depth, i = 0, 1
        while i < inner_end:
            k = skip_noncode(block, i)
            if k is not None:
                i = k; continue
            c = block[i]
            if c in '([{':
                depth += 1
            elif c in ')]}':
                depth -= 1
            elif depth == 0 and block.startswith('if', i) and not (block[i - 1].isalnum() or block[i - 1] == '_') and not (block[i + 2].isalnum() or block[i + 2] == '_'):
                # statement position? previous non-space char must be ';' or '}' or '{'
                j = i - 1
                while j > 0 and block[j].isspace():
                    j -= 1
                if block[j] in ';}{':
                    # find the `{` of the if-block at paren depth 0
                    q, pd = i + 2, 0
                    while q < inner_end:
                        k2 = skip_noncode(block, q)
                        if k2 is not None:
                            q = k2; continue
                        if block[q] in '([':
                            pd += 1
                        elif block[q] in ')]':
                            pd -= 1
                        elif block[q] == '{' and pd == 0:
                            break
                        q += 1
                    if q < inner_end:
                        e = match_close(block, q)
                        blk = block[q + 1:e].strip()
                        rest = block[e + 1:inner_end]
                        mret = re.fullmatch(r'return\s+(.*?);?', strip_comments(blk).strip(), re.S)
                        if mret and not rest.lstrip().startswith('else') and 'return' not in mret.group(1):
                            found = (q, e, mret.group(1).strip())
                            break
            i += 1
        if not found:
            break
        q, e, val = found
        rest = block[e + 1:inner_end]
        block = block[:q] + '{ ' + val + ' } else ' + guard_clauses_to_else('{' + rest + '}') + ' }'
        break
    return block


def inline_helper(unit, rel, body, helper):
    """R18: a free function that the contracted function calls but that is not under contract (typically a helper a change introduced)
    is INLINED at its call sites: `h(a, b)` becomes `{ let __h_0: T0 = a; let __h_1: T1 = b; { let p0: T0 = __h_0; let p1: T1 = __h_1; <body of h> } }`.
    Only when that is the same computation: h is a plain (non-generic, no `self`) function found exactly once in the crate's sources, its
    body holds no `return`, and if it holds a `?` every call site is itself followed by `?` (so an error leaves the caller either way).
    Anything else raises AssembleError and the caller falls back to treating the function as outside the subset."""
    # locate the helper: same file first, then the other files of the same source directory, then the shared packages
    cands = [rel]
    d = os.path.dirname(rel)
    for f in sorted(os.listdir(os.path.join(unit.repo, d))):
        if f.endswith('.rs') and os.path.join(d, f) not in cands:
            cands.append(os.path.join(d, f))
    for pk in ('packages/margined_common/src', 'packages/margined_perp/src'):
        pd_ = os.path.join(unit.repo, pk)
        if os.path.isdir(pd_):
            for f in sorted(os.listdir(pd_)):
                if f.endswith('.rs'):
                    cands.append(os.path.join(pk, f))
    found = None
    tname, fname = (helper.split('.') + [None])[:2] if '.' in helper else (None, helper)
    for c in cands:
        try:
            src = unit.read_repo(c)
        except AssembleError:
            continue
        if tname is None:
            try:
                ls, bo, be = find_fn(src, fname)
                found = (c, src, ls, bo, be)
                break
            except AssembleError:
                continue
        # a method `T.m`: look in every inherent `impl T { .. }` block
        for im in code_positions(src, r'\bimpl\s+' + re.escape(tname) + r'\s*\{'):
            b0 = im.end() - 1
            e0 = match_close(src, b0)
            try:
                ls, bo, be = find_fn(src, fname, b0 + 1, e0)
                found = (c, src, ls, bo, be)
                break
            except AssembleError:
                continue
        if found:
            break
    if not found:
        raise AssembleError('inline %s: no unique definition found' % helper)
    c, src, ls, bo, be = found
    sig = src[ls:bo]
    hbody = src[bo:be + 1]
    m = re.search(r'\bfn\s+' + re.escape(fname) + r'\s*(<[^>]*>)?\s*\(', sig)
    if not m or m.group(1):
        raise AssembleError('inline %s: generic function' % helper)
    po = sig.index('(', m.start())
    pc = match_close(sig, po, '(', ')')
    params = split_top_commas(sig[po + 1:pc])
    self_kind = None
    if tname is not None:
        if not params or not re.fullmatch(r'&\s*self|self', params[0].strip()):
            raise AssembleError('inline %s: receiver %r' % (helper, params[:1]))
        self_kind = 'ref' if params[0].strip().startswith('&') else 'val'
        params = params[1:]
    if any(re.match(r'(&\s*(mut\s+)?)?self\b', p_) for p_ in params):
        raise AssembleError('inline %s: method' % helper)
    plist = []
    for p_ in params:
        pm = re.match(r'(mut\s+)?(\w+)\s*:\s*(.+)$', p_, re.S)
        if not pm or 'impl ' in pm.group(3):
            raise AssembleError('inline %s: parameter %r' % (helper, p_))
        # (`&dyn Api` is the shim's struct `Api`, as in the DepsMut/Deps shim)
        plist.append((pm.group(1) or '', pm.group(2), re.sub(r'\bdyn\s+Api\b', 'Api', norm_ws(pm.group(3)))))
    hbody = guard_clauses_to_else(strip_comments(hbody))
    code = strip_comments(hbody)
    mret_ = re.search(r'\)\s*->\s*(.+?)\s*(?:where\b.*)?$', sig.strip(), re.S)
    ret_ty = norm_ws(mret_.group(1)) if mret_ else '()'
    if tname is not None:
        ret_ty = re.sub(r'\bSelf\b', tname, ret_ty)
    # `return Err(..)` leaves the CALLER once inlined: the same outcome where the caller passes the helper's error on anyway (call followed
    # by `?`, or the call is the caller's own result) - treated like a `?` in the helper; any other `return` disqualifies the helper
    ret_err = False
    if re.search(r'\breturn\b', code):
        if all(r_ == 'Err' for r_ in re.findall(r'\breturn\b\s*(\w*)', code)) and ret_ty.replace(' ', '').startswith(('StdResult<', 'Result<')):
            ret_err = True
        else:
            raise AssembleError('inline %s: the helper has an early return' % helper)
    if re.search(r'\b(loop|while|for)\b', code):
        raise AssembleError('inline %s: the helper has a loop' % helper)
    if re.search(r'(?<![\w])' + re.escape(fname) + r'\s*\(', code):
        raise AssembleError('inline %s: recursive' % helper)
    has_q = '?' in code or ret_err
    out, pos, n = [], 0, 0
    hid = helper.replace('.', '_')
    if tname is None:
        sites = list(code_positions(body, r'(?<![\w.:])' + re.escape(fname) + r'\s*\('))
    else:
        # `recv.m(..)` with a plain place expression as the receiver (identifier and field path); any other call of `.m(` keeps the
        # method un-inlined (the function then leaves the subset)
        sites = list(code_positions(body, r'(?<![\w.)\]?])([a-z_]\w*(?:\s*\.\s*[a-z_]\w*)*)\s*\.\s*' + re.escape(fname) + r'\s*\('))
        if len(sites) != len(list(code_positions(body, r'\.\s*' + re.escape(fname) + r'\s*\('))):
            raise AssembleError('inline %s: a call with a receiver that is not a plain place expression' % helper)
        hbody = re.sub(r'\bSelf\b', tname, hbody)
    if not sites:
        raise AssembleError('inline %s: no call site' % helper)
    for sm in sites:
        if sm.start() < pos:
            raise AssembleError('inline %s: nested call sites' % helper)
        ao = sm.end() - 1
        ac = match_close(body, ao, '(', ')')
        args = split_top_commas(body[ao + 1:ac])
        if len(args) != len(plist):
            raise AssembleError('inline %s: %d arguments for %d parameters' % (helper, len(args), len(plist)))
        after = body[ac + 1:].lstrip()
        # `?` inside the helper leaves the CALLER once inlined: the same outcome only where the caller passes the helper's error on anyway,
        # i.e. the call is followed by `?` or is the caller's own result (tail expression / `return h(..)`)
        is_tail = after == '}' or re.search(r'\breturn\s*$', body[:sm.start()]) is not None
        if has_q and not (after.startswith('?') or is_tail):
            raise AssembleError('inline %s: the helper uses `?` and a call site is not followed by `?`' % helper)
        pre = ' '.join('let __%s_%d_%d: %s = %s;' % (hid, n, k, t, a) for k, ((mu, nm, t), a) in enumerate(zip(plist, args)))
        inner = ' '.join('let %s%s: %s = __%s_%d_%d;' % (mu, nm, t, hid, n, k) for k, (mu, nm, t) in enumerate(plist))
        hb = hbody
        if tname is not None:
            sv = '__%s_%d_self' % (hid, n)
            pre = ('let %s: &%s = (%s).self_ref(); ' % (sv, tname, sm.group(1)) if self_kind == 'ref' else 'let %s: %s = %s; ' % (sv, tname, sm.group(1))) + pre
            hb = re.sub(r'\bself\b', sv, hbody)
        out.append(body[pos:sm.start()])
        # (the result gets the helper's declared return type, as the call expression had)
        out.append('{ let __%s_%d_r: %s = { %s { %s %s } }; __%s_%d_r }' % (hid, n, ret_ty, pre, inner, hb, hid, n))
        pos = ac + 1
        n += 1
    out.append(body[pos:])
    unit.stats['R18_inlined_helper'] = unit.stats.get('R18_inlined_helper', 0) + n
    unit.inlined.setdefault(helper, []).append('%s (%s:%d)' % (helper, c, line_of(src, ls)))
    return ''.join(out)


def find_loops(body):
    """Offsets (start of keyword, offset of '{' that opens the loop body) of loops in order."""
    res = []
    for m in code_positions(body, r'\b(loop|while|for)\b'):
        kw = m.group(1)
        # not part of an identifier like `for_each`
        j, pd = m.end(), 0
        while j < len(body):
            k = skip_noncode(body, j)
            if k is not None:
                j = k; continue
            c = body[j]
            if c in '([': pd += 1
            elif c in ')]': pd -= 1
            elif c == '{' and pd == 0:
                break
            j += 1
        res.append((m.start(), j, kw))
    return res


def tokens_rename(text, renames, stats):
    for old, new in renames.items():
        rx = r'(?<![\w])' + re.escape(old) + r'(?![\w])'
        # only in code
        ms = list(code_positions(text, rx))
        for m in reversed(ms):
            text = text[:m.start()] + new + text[m.end():]
        if ms:
            stats['R10_rename'] = stats.get('R10_rename', 0) + len(ms)
    return text


# ---------------------------------------------------------------- assembler
class Unit:
    def __init__(self, name, repo, mode):
        self.name, self.repo, self.mode = name, repo, mode
        self.out = []          # list of (text_line, origin)
        self.stats = {}
        self.functions = []    # dicts: name, file, line, out_start, out_end, props, labels
        self.labels = []       # dicts: out_line, props, name, fn
        self.filerename = {}
        self.sources = {}
        self.inputs = []       # files read (for cache key)
        self.theorems = []
        self.stub = set()      # functions to emit as assumed contracts (degraded mode, DESIGN 13.6)
        self.stubbed = {}      # name -> reason
        self.skipped = []      # total mode: functions emitted as their contract alone (not flagged np)
        self.inline = {}       # function name -> helper names to inline at their call sites (R18)
        self.inlined = {}      # helper -> where it was taken from
        self.absent = []       # listed functions that no longer exist on this tree
        self.tainted = set()   # functions that inline a function whose contract was dropped: a failed clause there is undecided, not a violation
        self.comb_result = set()     # R23: functions whose ambiguous combinators (`map`, `and_then`) are emitted in their Result form
        self.comb_ambiguous = set()  # R23: functions that hold such a combinator
        self.moved = []        # R22: contracted functions found in another file than the one the contract list names
        self.inlined_into = {} # function -> helpers inlined into it (R18)
        self.adapt = {}        # R21: function -> {parameter: 'deref' | 'ref'}
        self.drop = set()      # contracted functions whose contract does not type-check on this tree: not emitted, inlined into callers

    def read_repo(self, rel):
        p = os.path.join(self.repo, rel)
        if rel not in self.sources:
            if not os.path.isfile(p):
                raise AssembleError('repo file missing: %s' % rel)
            self.sources[rel] = open(p).read()
            self.inputs.append(p)
        return self.sources[rel]

    def emit(self, text, origin):
        for ln in text.split('\n'):
            self.out.append((ln, origin))

    def cur_line(self):
        return len(self.out) + 1


CLOSURE_RX = re.compile(r'(?:[(,=]\s*|\bmove\s+|\breturn\s+)\|')
LABEL_RX = re.compile(r'//#\s*([C0-9, ]+?)\s+([\w.\-]+)\s*$')


def preprocess_conditionals(unit, lines):
    out, stack = [], []   # stack of (active_before, cond_value, in_else)
    for ln in lines:
        s = ln.strip()
        if s.startswith('//@ifderives') or s.startswith('//@ifhasfn'):
            ps = s.split(None, 3)
            src = unit.read_repo(ps[1])
            if s.startswith('//@ifderives'):
                _, tname, trait = s.split(None, 3)[1:]
                start, ls, e = find_type(src, tname)
                m = re.search(r'#\[derive\(([^)]*)\)\]', src[start:e])
                cond = bool(m) and trait in [d.strip() for d in m.group(1).split(',')]
            else:
                cond = len(list(code_positions(src, r'\bfn\s+' + re.escape(ps[2]) + r'\b'))) > 0
            unit.stats['conditional_' + ('true' if cond else 'false')] = unit.stats.get('conditional_' + ('true' if cond else 'false'), 0) + 1
            stack.append([all(x[1] != x[2] for x in stack) if stack else True, cond, False])
            out.append('')
            continue
        if s == '//@else':
            stack[-1][2] = True
            out.append('')
            continue
        if s == '//@endif':
            stack.pop()
            out.append('')
            continue
        active = all((c if not e else not c) for _, c, e in stack)
        out.append(ln if active else '')
    if stack:
        raise AssembleError('unterminated //@if')
    return out


def process_template(unit, tpl_path):
    lines = preprocess_conditionals(unit, open(tpl_path).read().split('\n'))
    unit.inputs.append(tpl_path)
    i = 0
    rel_tpl = os.path.relpath(tpl_path, VERIF)
    while i < len(lines):
        ln = lines[i]
        s = ln.strip()
        if not s.startswith('//@'):
            m = LABEL_RX.search(ln)
            if m:
                unit.labels.append({'out_line': unit.cur_line(), 'props': [p.strip() for p in m.group(1).split(',') if p.strip()],
                                    'name': m.group(2), 'fn': None, 'spec': '%s:%d' % (rel_tpl, i + 1)})
            mt = re.match(r'\s*(pub\s+)?(broadcast\s+)?proof\s+fn\s+(\w+)', ln)
            if mt:
                unit.theorems.append({'name': mt.group(3), 'out_line': unit.cur_line(), 'spec': '%s:%d' % (rel_tpl, i + 1)})
            unit.emit(ln, '%s:%d' % (rel_tpl, i + 1))
            i += 1
            continue
        parts = s[3:].split(None, 1)
        cmd = parts[0]
        arg = parts[1] if len(parts) > 1 else ''
        if cmd == 'include':
            p = os.path.join(VERIF, arg.strip())
            if p.endswith('.vrs'):
                process_template(unit, p)
            else:
                unit.inputs.append(p)
                for k, l2 in enumerate(open(p).read().split('\n')):
                    unit.out.append((l2, '%s:%d' % (arg.strip(), k + 1)))
            i += 1
        elif cmd == 'filerename':
            ps = arg.split()
            unit.filerename.setdefault(ps[0], {}).update(dict(p.split('=') for p in ps[1:]))
            i += 1
        elif cmd == 'consts':
            # all simple numeric constants of a file (so that a newly added id/limit constant does not make the unit uncompilable)
            rel = arg.strip()
            src = unit.read_repo(rel)
            already = set(re.findall(r'\bconst\s+(\w+)\s*:', '\n'.join(l for l, _ in unit.out)))
            for m in code_positions(src, r'(?m)^(pub(\([a-z]+\))?\s+)?const\s+(\w+)\s*:\s*(u8|u16|u32|u64|u128|usize)\s*=\s*([^;]+);'):
                if m.group(3) in already:
                    continue
                unit.emit('pub const %s: %s = %s;' % (m.group(3), m.group(4), m.group(5).strip()), '%s:%d' % (rel, line_of(src, m.start())))
                unit.stats['R7_const'] = unit.stats.get('R7_const', 0) + 1
            i += 1
        elif cmd == 'interface':
            # //@interface <label> <props> <caller file> <caller fn> <callee file> <callee fn>
            lab, props, f1, n1, f2, n2 = arg.split()
            def ret_of(rel, fname):
                src = unit.read_repo(rel)
                ls, bo, be = find_fn(src, fname)
                sig = src[ls:bo]
                m = re.search(r'->\s*(.*)$', sig, re.S)
                if not m:
                    raise AssembleError('interface: %s has no return type' % fname)
                t = norm_ws(m.group(1))
                mm = re.match(r'(?:StdResult|Result)<\s*(.*?)\s*(?:,\s*\w+\s*)?>$', t)
                return (mm.group(1) if mm else t), '%s:%d' % (rel, line_of(src, ls))
            try:
                t1, o1 = ret_of(f1, n1)
                t2, o2 = ret_of(f2, n2)
            except AssembleError as e_abs:
                if 'found 0' in str(e_abs):
                    unit.absent.append('interface_' + lab)
                    i += 1
                    continue
                raise
            unit.emit('// caller %s::%s deserialises `%s` (%s); callee %s::%s serialises `%s` (%s)' % (f1, n1, t1, o1, f2, n2, t2, o2), rel_tpl)
            unit.theorems.append({'name': 'interface_' + lab, 'out_line': unit.cur_line(), 'spec': '%s:%d' % (rel_tpl, i + 1)})
            unit.emit('pub proof fn interface_%s()' % lab, rel_tpl)
            unit.labels.append({'out_line': unit.cur_line(), 'props': props.split(','), 'name': 'interface_' + lab, 'fn': None, 'spec': '%s:%d' % (rel_tpl, i + 1)})
            unit.emit('    ensures "%s"@ == "%s"@, //# %s interface_%s' % (t1, t2, props, lab), rel_tpl)
            unit.emit('{}', rel_tpl)
            if t1 != t2:
                unit.theorems.append({'name': 'W_interface_%s_types_differ' % lab, 'out_line': unit.cur_line(), 'spec': '%s:%d' % (rel_tpl, i + 1)})
                unit.emit('pub proof fn W_interface_%s_types_differ()\n    ensures "%s"@ != "%s"@,\n{ reveal_strlit("%s"); reveal_strlit("%s"); assert("%s"@.len() != "%s"@.len() || "%s"@[0] != "%s"@[0]); }'
                          % (lab, t1, t2, t1, t2, t1, t2, t1, t2), rel_tpl)
            unit.stats['interface_pairs'] = unit.stats.get('interface_pairs', 0) + 1
            i += 1
        elif cmd == 'const':
            cparts = arg.split(None, 3)
            rel, name = cparts[0], cparts[1]
            exec_ens = cparts[3] if len(cparts) > 3 and cparts[2] == 'exec' else None
            src = unit.read_repo(rel)
            ms = list(code_positions(src, r'(?m)^\s*(pub(\([a-z]+\))?\s+)?(const|static)\s+' + re.escape(name) + r'\s*:'))
            if len(ms) != 1:
                raise AssembleError('const %s in %s: found %d' % (name, rel, len(ms)))
            e = src.find(';', ms[0].start())
            text = src[ms[0].start():e + 1].strip()
            text = re.sub(r'^pub\(crate\)', 'pub', text)
            text = re.sub(r':\s*&str\s*=', ": &'static str =", text, count=1)
            text = re.sub(r'env!\([^)]*\)', '"" /* env!(..) erased: a build-time string whose value no contract depends on */', text)   # elided 'static in a const: the verus! macro wants it spelled out
            if exec_ens is not None:
                mm = re.match(r'(pub\s+)?const\s+(\w+)\s*:\s*([^=]+?)\s*=\s*(.*);$', text, re.S)
                if not mm:
                    raise AssembleError('const %s: cannot convert to exec const' % name)
                text = '%sexec const %s: %s\n    ensures %s\n{ %s }' % (mm.group(1) or '', mm.group(2), mm.group(3), exec_ens, mm.group(4))
                unit.stats['R13_exec_const'] = unit.stats.get('R13_exec_const', 0) + 1
            unit.emit(text, '%s:%d' % (rel, line_of(src, ms[0].start())))
            i += 1
        elif cmd == 'type':
            m = re.match(r'(\S+)\s+(\w+)(?:\s+as\s+(\w+))?(?:\s+derive\(([^)]*)\))?(\s+noclone)?\s*$', arg)
            if not m:
                raise AssembleError('bad //@type: %s' % arg)
            rel, name, newname, der, noclone = m.groups()
            src = unit.read_repo(rel)
            start, ls, e = find_type(src, name)
            text, derives = rewrite_type(src[start:e], name, newname, der, unit.stats)
            text = tokens_rename(text, unit.filerename.get(rel, {}), unit.stats)
            if newname:
                text = re.sub(r'\b(struct|enum)\s+' + name + r'\b', r'\1 ' + newname, text, count=1)
            tname = newname or name
            if der is not None:
                keep = [d.strip() for d in der.split(',') if d.strip()]
            else:
                keep = []
            gen_clone = 'Clone' in derives and 'Clone' not in keep and not noclone
            structural = 'Structural' in keep
            keep = [d for d in keep if d != 'Structural']
            if keep:
                unit.emit('#[derive(%s)]' % ', '.join(keep), 'R1')
            unit.emit(text.strip('\n'), '%s:%d' % (rel, line_of(src, ls)))
            if structural:
                # derive(Structural) crashes this Verus build inside a nested module; derive(PartialEq) is field-wise
                unit.emit('unsafe impl Structural for %s {}' % tname, 'R1-structural')
                unit.stats['R1_structural_impl'] = unit.stats.get('R1_structural_impl', 0) + 1
            if gen_clone:
                unit.emit('impl Clone for %s {\n    #[verifier::external_body]\n    fn clone(&self) -> (r: %s) ensures r == *self, { unimplemented!() }\n}' % (tname, tname), 'R1-clone')
                unit.stats['R1_clone_impl'] = unit.stats.get('R1_clone_impl', 0) + 1
            i += 1
        elif cmd == 'fn':
            i = process_fn(unit, lines, i, arg, rel_tpl)
        else:
            raise AssembleError('unknown directive %s at %s:%d' % (cmd, rel_tpl, i + 1))


def process_fn(unit, lines, i, arg, rel_tpl):
    m = re.match(r'(\S+)\s+(?:"([^"]+)"::)?(\w+)(?:\s+as\s+(\w+))?(\s+total)?(\s+np)?(\s+nopub)?\s*$', arg)
    if not m:
        raise AssembleError('bad //@fn: %s' % arg)
    rel, impl_hdr, name, newname, total, np_flag, nopub = m.groups()
    spec_start = i + 1
    j = i + 1
    sections = [('spec', None, [])]
    renames = dict(unit.filerename.get(rel, {}))
    subs = []
    suball = []
    attrs = []
    strlit_keys = None
    while j < len(lines) and lines[j].strip() != '//@end':
        s = lines[j].strip()
        if s.startswith('//@loop'):
            sections.append(('loop', int(s.split()[1]), []))
        elif s.startswith('//@after_np'):
            # a hint used only by the total (no-abort) assembly: a lost anchor then cannot touch the partial-mode verdict
            mm = re.match(r'//@after_np\s+(\d+)\s+(.*)$', s)
            sections.append(('after_np', (int(mm.group(1)), mm.group(2)), []))
        elif s.startswith('//@after'):
            mm = re.match(r'//@after\s+(\d+)\s+(.*)$', s)
            sections.append(('after', (int(mm.group(1)), mm.group(2)), []))
        elif s.startswith('//@atstart'):
            sections.append(('atstart', None, []))
        elif s.startswith('//@atend'):
            sections.append(('atend', None, []))
        elif s.startswith('//@attr'):
            attrs.append(s[len('//@attr'):].strip())
        elif s.startswith('//@strlits'):
            strlit_keys = re.findall(r'"([^"]*)"', s)
        elif s.startswith('//@rename'):
            renames.update(dict(p.split('=') for p in s.split()[1:]))
        elif s.startswith('//@subopt'):
            # like //@sub but the anchor may be absent (alternative spellings of the same construct)
            parts_ = s[len('//@subopt'):].split(' ==> ', 1)
            if len(parts_) != 2:
                raise AssembleError('bad //@subopt at %s:%d' % (rel_tpl, j + 1))
            subs.append((parts_[0].strip(), parts_[1].strip(), True))
        elif s.startswith('//@suball'):
            parts_ = s[len('//@suball'):].split(' ==> ', 1)
            if len(parts_) != 2:
                raise AssembleError('bad //@suball at %s:%d' % (rel_tpl, j + 1))
            suball.append((parts_[0].strip(), parts_[1].strip()))
        elif s.startswith('//@sub'):
            parts_ = s[len('//@sub'):].split(' ==> ', 1)
            if len(parts_) != 2:
                raise AssembleError('bad //@sub at %s:%d' % (rel_tpl, j + 1))
            subs.append((parts_[0].strip(), parts_[1].strip(), False))
        elif s.startswith('//@'):
            raise AssembleError('unknown fn directive %s at %s:%d' % (s, rel_tpl, j + 1))
        else:
            sections[-1][2].append((lines[j], j + 1))
        j += 1
    if j >= len(lines):
        raise AssembleError('missing //@end for fn %s' % name)

    if (newname or name) in unit.drop and not impl_hdr:
        if len(sections) > 1 or strlit_keys is not None:
            # the function's own proof needs hints (lemma calls, loop invariants): inlined into a caller the same facts would have to be found
            # without them, and a failure there would say nothing about the code - stay undecided
            raise AssembleError('fn %s: its contract does not type-check against its present signature, and its proof relies on hints, so it is not inlined' % name)
        unit.absent.append('%s (its contract does not type-check against its present signature; inlined into its callers)' % (newname or name))
        return j + 1
    src = unit.read_repo(rel)
    try:
        if impl_hdr:
            a, b = find_impl_block(src, impl_hdr)
            ls, bo, be = find_fn(src, name, a, b)
        else:
            try:
                ls, bo, be = find_fn(src, name)
            except AssembleError as e_moved:
                if 'found 0' not in str(e_moved):
                    raise
                # not in its file any more: a function MOVED to another file of the same source directory or to a shared package is the
                # same function (found exactly once there, free function); it is extracted from where it lives now
                found_ = []
                d_ = os.path.dirname(rel)
                cands_ = [os.path.join(d_, f_) for f_ in sorted(os.listdir(os.path.join(unit.repo, d_))) if f_.endswith('.rs') and os.path.join(d_, f_) != rel]
                for pk_ in ('packages/margined_common/src', 'packages/margined_perp/src', 'packages/margined_utils/src'):
                    if os.path.isdir(os.path.join(unit.repo, pk_)) and pk_ != d_:
                        cands_ += [os.path.join(pk_, f_) for f_ in sorted(os.listdir(os.path.join(unit.repo, pk_))) if f_.endswith('.rs')]
                for c_ in cands_:
                    try:
                        s2_ = unit.read_repo(c_)
                        r2_ = find_fn(s2_, name)
                        found_.append((c_, s2_, r2_))
                    except AssembleError:
                        continue
                if len(found_) != 1:
                    raise e_moved
                rel, src, (ls, bo, be) = found_[0]
                unit.moved.append('%s (now in %s)' % (newname or name, rel))
                unit.stats['R22_moved_function'] = unit.stats.get('R22_moved_function', 0) + 1
    except AssembleError as e_absent:
        if 'found 0' in str(e_absent) and not impl_hdr:
            # the function no longer exists on this tree (removed or renamed): nothing to verify against its contract; whoever called it
            # calls something else now and is checked against its own contract (the replacement is inlined where possible, R18). The
            # function's clauses are reported undecided.
            unit.absent.append(newname or name)
            return j + 1
        raise
    sig = src[ls:bo].rstrip()
    body = src[bo:be + 1]
    src_line = line_of(src, ls)
    mode = unit.mode
    st = unit.stats

    # R21: the contract passes a parameter to a spec function by value, and the parameter has since become a reference (or the other way
    # round): `p` in the contract and hint text becomes `(*p)` (or `(&p)`). Triggered by the front end's own E0308 "expected `T`, found `&T`"
    # on that identifier (tools/runverus.py); only for names that are parameters of the present signature with a matching reference-ness.
    adapt_ = {}
    for pn_, how_ in (unit.adapt.get(newname or name) or {}).items():
        mpt_ = re.search(r'[(,]\s*(?:mut\s+)?' + re.escape(pn_) + r'\s*:\s*(&?)', src[ls:bo])
        if mpt_ and ((how_ == 'deref') == (mpt_.group(1) == '&')):
            adapt_[pn_] = how_

    def adapt_refs(text_):
        if not adapt_:
            return text_
        code_, _, lab_ = text_.partition('//#')
        for pn_, how_ in adapt_.items():
            code_, c_ = re.subn(r'(?<![\w.*&])' + re.escape(pn_) + r'(?![\w(])', ('(*%s)' if how_ == 'deref' else '(&%s)') % pn_, code_)
            if c_:
                st['R21_contract_ref_adapt'] = st.get('R21_contract_ref_adapt', 0) + c_
        return code_ + (('//#' + lab_) if _ else '')

    # R3: named return
    sig_nc = sig
    arrow = None
    pd = 0
    k = 0
    while k < len(sig_nc):
        c = sig_nc[k]
        if c in '(<[': pd += 1
        elif c in ')]': pd -= 1
        elif c == '>' and sig_nc[k - 1] != '-': pd -= 1
        elif sig_nc.startswith('->', k) and pd == 0:
            arrow = k
        k += 1
    if arrow is not None:
        ret = sig[arrow + 2:].strip()
        where = ''
        mw = re.search(r'\bwhere\b', ret)
        if mw:
            where = ' ' + ret[mw.start():]
            ret = ret[:mw.start()].strip()
        sig = sig[:arrow] + '-> (r: %s)%s' % (ret, where)
        st['R3_named_return'] = st.get('R3_named_return', 0) + 1
    # R2: mut self
    prefix = ''
    if re.search(r'\(\s*mut\s+self\b', sig):
        sig = re.sub(r'\(\s*mut\s+self\b', '(self', sig)
        body = tokens_rename(body, {'self': 'self_'}, {})
        prefix = ' let mut self_ = self;'
        st['R2_mut_self'] = st.get('R2_mut_self', 0) + 1
    # R2b: `mut x: T` by-value parameters -> `x: T` + `let mut x = x;` (contracts then speak about the entry value)
    for mm in list(re.finditer(r'([(,]\s*)mut\s+(\w+)\s*:', sig)):
        if mm.group(2) == 'self':
            continue
        prefix += ' let mut %s = %s;' % (mm.group(2), mm.group(2))
        st['R2_mut_param'] = st.get('R2_mut_param', 0) + 1
    sig = re.sub(r'([(,]\s*)mut\s+(?!self\b)(\w+)\s*:', r'\1\2:', sig)
    # R15: `_x: T` parameters are named `x` (the leading underscore only silences a lint): contracts keep speaking about `x` when a
    # change stops using a parameter and underscores it
    for mm in list(re.finditer(r'[(,]\s*(?:mut\s+)?_([A-Za-z]\w*)\s*:', sig)):
        bare = mm.group(1)
        # (occurrences in comments do not count: "the output is positive" must not keep `_output` from being named `output`)
        if re.search(r'(?<![\w])' + bare + r'(?![\w])', sig):
            continue
        code_ = strip_comments(body)
        occ_ = [m_.start() for m_ in re.finditer(r'(?<![\w])' + bare + r'(?![\w])', code_)]
        if occ_:
            # the body may introduce a LOCAL of that name (`let output = ..`): it shadows the parameter from there on, so naming the unused
            # parameter `output` changes nothing - provided every use of the name comes after such a binding
            bind_ = re.search(r'\blet\s+(?:mut\s+)?' + bare + r'(?![\w])', code_)
            if not bind_ or occ_[0] < bind_.start():
                continue
        sig = tokens_rename(sig, {'_' + bare: bare}, {})
        body = tokens_rename(body, {'_' + bare: bare}, {})
        st['R15_underscore_param'] = st.get('R15_underscore_param', 0) + 1
    # R14: anonymous `_: T` parameters get a name (the verus! macro wants an identifier; the value is unused either way)
    sig, n_anon = re.subn(r'([(,]\s*)_\s*:', r'\1_anon:', sig)
    if n_anon:
        st['R14_anon_param'] = st.get('R14_anon_param', 0) + n_anon
    if newname:
        sig = re.sub(r'\bfn\s+' + name + r'\b', 'fn ' + newname, sig, count=1)
    sig = re.sub(r'^(\s*)pub\(crate\)\s+', r'\1pub ', sig)
    sig = tokens_rename(sig, renames, st)
    body = tokens_rename(body, renames, st)
    stub_reason = None
    inserts = []
    skipped_total = False
    if unit.mode == 'total' and not np_flag:
        # total (no-abort) mode verifies only the functions flagged `np`; every other function is emitted as its contract alone,
        # exactly what its callers see in partial mode, where its body IS verified against that contract
        stub_reason = 'not verified in total mode (body verified against this contract in partial mode)'
        skipped_total = True
    elif (newname or name) in unit.stub:
        stub_reason = 'front end rejected the extracted body'
    else:
      try:
          for old, new in suball:
              rx = r'\s*'.join(re.escape(ch) for ch in old if not ch.isspace())
              if old[:1].isalnum() or old[:1] == '_':
                  rx = r'(?<![\w])' + rx
              body, cnt = re.subn(rx, lambda m_: new, body)
              if cnt < 1:
                  raise AssembleError('fn %s: //@suball anchor %r matched 0 times' % (name, old))
              st['Rsub_declared'] = st.get('Rsub_declared', 0) + cnt
          for old, new, optional in subs:
              # whitespace-insensitive, must match exactly once (//@subopt: at most once)
              rx = r'\s*'.join(re.escape(ch) for ch in old if not ch.isspace())
              ms = list(re.finditer(rx, body))
              if optional and len(ms) == 0:
                  continue
              if len(ms) != 1:
                  raise AssembleError('fn %s: //@sub anchor %r matched %d times' % (name, old, len(ms)))
              body = body[:ms[0].start()] + new + body[ms[0].end():]
              st['Rsub_declared'] = st.get('Rsub_declared', 0) + 1
          helpers_ = set(unit.inline.get(newname or name, []))
          for d_ in unit.drop:
              if d_ != (newname or name) and re.search(r'(?<![\w.:])' + re.escape(d_) + r'\s*\(', strip_comments(body)):
                  helpers_.add(d_)
          for helper_ in sorted(helpers_):
              body = inline_helper(unit, rel, body, helper_)
              unit.inlined_into.setdefault(newname or name, set()).add(helper_)
              if helper_ in unit.drop:
                  unit.tainted.add(newname or name)
          body = rewrite_body(body, 'total' if total else mode, st)
          # R23: Option / Result combinators with a closure -> the `match` they abbreviate
          body, amb_ = rewrite_combinators(body, st, 'result' if (newname or name) in unit.comb_result else 'option')
          if amb_:
              unit.comb_ambiguous.add(newname or name)
          # a closure's result is opaque to the verifier (no inferred ensures): a proof through one fails for no semantic reason, so a
          # body that still holds one after the declared rewrites is outside the subset (degraded mode), never a violation
          if CLOSURE_RX.search(strip_comments(body)):
              raise AssembleError('fn %s: closure in the body (its result is opaque to the verifier)' % name)

          # splice loops / after / atstart
          inserts = []  # (offset in body, text, origin)
          for kind, key, sl in sections[1:]:
              text = '\n'.join(adapt_refs(l) for l, _ in sl)
              origin = '%s:%d' % (rel_tpl, sl[0][1] if sl else j)
              if kind == 'loop':
                  loops = find_loops(body)
                  if key >= len(loops):
                      raise AssembleError('fn %s: loop %d not found (%d loops)' % (name, key, len(loops)))
                  inserts.append((loops[key][1], '\n' + text + '\n', origin, sl))
                  st['R4_loop_spec'] = st.get('R4_loop_spec', 0) + 1
              elif kind == 'after_np' and unit.mode != 'total':
                  continue
              elif kind in ('after', 'after_np'):
                  kth, stmt = key
                  ns = norm_ws(stmt)
                  # search for statement text with normalized whitespace
                  rx = r'\s+'.join(re.escape(t) for t in ns.split(' '))
                  ms = list(code_positions(body, rx))
                  if kth >= len(ms):
                      raise AssembleError('fn %s: anchor %r occurrence %d not found (%d found)' % (name, stmt, kth, len(ms)))
                  inserts.append((ms[kth].end(), '\n' + text + '\n', origin, sl))
                  st['R5_proof_hint'] = st.get('R5_proof_hint', 0) + 1
              elif kind == 'atstart':
                  inserts.append((1, '\n' + text + '\n', origin, sl))
                  st['R5_proof_hint'] = st.get('R5_proof_hint', 0) + 1
              elif kind == 'atend':
                  inserts.append((len(body) - 1, '\n' + text + '\n', origin, sl))
                  st['R5_proof_hint'] = st.get('R5_proof_hint', 0) + 1
          if strlit_keys is not None:
              inserts.append((1, '\n' + strlit_prelude(strlit_keys, body) + '\n', 'R16', []))
              st['R16_strlit_prelude'] = st.get('R16_strlit_prelude', 0) + 1
          if prefix:
              inserts.append((1, prefix, 'R2', []))

      except AssembleError as e_:
        stub_reason = str(e_)
    fn_rec = {'name': newname or name, 'impl': impl_hdr, 'file': rel, 'line': src_line, 'out_start': unit.cur_line(),
              'props': [], 'labels': [], 'mode': 'total' if total else mode, 'spec': '%s:%d' % (rel_tpl, i + 1), 'np': bool(np_flag)}
    if stub_reason:
        unit.emit('#[verifier::external_body] /*%s*/' % ('TOTAL-SKIP' if skipped_total else 'DEGRADED'), rel_tpl)
    else:
        for at in attrs:
            unit.emit(at, rel_tpl)
    fn_rec['out_start'] = unit.cur_line()
    unit.emit(sig, '%s:%d' % (rel, src_line))
    for l, lno in sections[0][2]:
        l = adapt_refs(l)
        mm = LABEL_RX.search(l)
        if mm:
            props = [p.strip() for p in mm.group(1).split(',') if p.strip()]
            lab = {'out_line': unit.cur_line(), 'props': props, 'name': mm.group(2), 'fn': fn_rec['name'], 'spec': '%s:%d' % (rel_tpl, lno)}
            unit.labels.append(lab)
            fn_rec['labels'].append(lab['name'])
            for p in props:
                if p not in fn_rec['props']:
                    fn_rec['props'].append(p)
        unit.emit(l, '%s:%d' % (rel_tpl, lno))
    if stub_reason:
        # degraded mode: this function is outside the verifiable subset on this tree; its contract is ASSUMED for its callers and
        # every clause of it is reported undecided (never discharged, never a violation)
        unit.emit('{ unimplemented!() }', '%s:%d' % (rel, src_line))
        fn_rec['out_end'] = unit.cur_line() - 1
        if skipped_total:
            fn_rec['skipped_total'] = True
            unit.skipped.append(fn_rec['name'])
            return j + 1
        fn_rec['stubbed'] = stub_reason
        unit.stubbed[fn_rec['name']] = stub_reason
        unit.functions.append(fn_rec)
        return j + 1
    # body with inserts, emitted piecewise to keep origins
    inserts.sort(key=lambda t: t[0])
    pos = 0
    cur_src_off = bo
    for off, text, origin, sl in inserts:
        chunk = body[pos:off]
        emit_chunk(unit, chunk, rel, src, bo + pos)
        if sl:
            for l, lno in sl:
                mm = LABEL_RX.search(l)
                if mm:
                    props = [p.strip() for p in mm.group(1).split(',') if p.strip()]
                    lab = {'out_line': unit.cur_line(), 'props': props, 'name': mm.group(2), 'fn': fn_rec['name'], 'spec': '%s:%d' % (rel_tpl, lno)}
                    unit.labels.append(lab)
                unit.emit(l, '%s:%d' % (rel_tpl, lno))
        else:
            unit.emit(text, origin)
        pos = off
    emit_chunk(unit, body[pos:], rel, src, bo + pos)
    fn_rec['out_end'] = unit.cur_line() - 1
    unit.functions.append(fn_rec)
    return j + 1


def emit_chunk(unit, chunk, rel, src, src_off):
    base = line_of(src, src_off)
    for k, ln in enumerate(chunk.split('\n')):
        unit.out.append((ln, '%s:%d' % (rel, base + k)))


def assemble(unit_name, repo='/repo', mode='partial', outdir=None, stub=None, inline=None, drop=None, adapt=None, comb_result=None):
    outdir = outdir or os.path.join(VERIF, 'build')
    os.makedirs(outdir, exist_ok=True)
    unit = Unit(unit_name, repo, mode)
    unit.stub = set(stub or [])
    unit.inline = {k: set(v) for k, v in (inline or {}).items()}
    unit.drop = set(drop or [])
    unit.adapt = {k: dict(v) for k, v in (adapt or {}).items()}
    unit.comb_result = set(comb_result or [])
    tpl = os.path.join(VERIF, 'specs', unit_name + '.vrs')
    header = ('#![allow(unused_imports, dead_code, unused_variables, unused_mut, unused_assignments, non_snake_case, unreachable_code, unused_parens, non_upper_case_globals)]\n'
              '#![verifier::allow(autoderive_clone_without_spec)]\n'
              'use vstd::prelude::*;\n'
              'verus! {\n'
              'pub open spec fn UINT_OPS_TOTAL_MODE() -> bool { %s }\n' % ('true' if mode == 'total' else 'false'))
    unit.emit(header, 'header')
    base = os.path.join(VERIF, 'shim', 'base.rs')
    unit.inputs.append(base)
    for k, l2 in enumerate(open(base).read().split('\n')):
        unit.out.append((l2, 'shim/base.rs:%d' % (k + 1)))
    unit.emit('pub mod unit {\nuse vstd::prelude::*;\nuse vstd::arithmetic::div_mod::*;\nuse vstd::arithmetic::mul::*;\n'
              'use vstd::std_specs::convert::*;\nuse crate::base::*;\nbroadcast use crate::base::group_base;\n', 'header')
    process_template(unit, tpl)
    # a contracted function is gone from this tree (removed / renamed) AND some function now inlines a helper that is not under contract:
    # the helper may be the renamed successor of the lost function, whose contract (and the proof hints behind it) the caller's proof
    # used to rest on - a clause of such a caller that fails is undecided, never a violation (cf. the dropped-contract rule)
    if any('inlined into its callers' not in a_ for a_ in unit.absent):
        unit.tainted |= set(unit.inlined_into)
    unit.emit('\n} // mod unit\n} // verus!\nfn main() {}\n', 'footer')
    suffix = '' if mode == 'partial' else '_' + mode
    out_rs = os.path.join(outdir, unit_name + suffix + '.rs')
    with open(out_rs, 'w') as f:
        f.write('\n'.join(l for l, _ in unit.out))
    h = hashlib.sha256()
    for p in sorted(set(unit.inputs)):
        h.update(p.encode()); h.update(open(p, 'rb').read())
    h.update(mode.encode())
    meta = {'unit': unit_name, 'mode': mode, 'file': out_rs, 'origins': [o for _, o in unit.out],
            'functions': unit.functions, 'labels': unit.labels, 'theorems': unit.theorems,
            'stubbed': unit.stubbed, 'skipped_total': unit.skipped, 'inlined': unit.inlined, 'absent': unit.absent, 'tainted': sorted(unit.tainted), 'moved': unit.moved, 'comb_ambiguous': sorted(unit.comb_ambiguous), 'extraction': unit.stats, 'inputs': sorted(set(unit.inputs)), 'hash': h.hexdigest()}
    with open(os.path.join(outdir, unit_name + suffix + '.map.json'), 'w') as f:
        json.dump(meta, f)
    return meta


if __name__ == '__main__':
    import argparse
    ap = argparse.ArgumentParser()
    ap.add_argument('unit')
    ap.add_argument('--repo', default='/repo')
    ap.add_argument('--mode', default='partial')
    a = ap.parse_args()
    try:
        meta = assemble(a.unit, a.repo, a.mode)
    except AssembleError as e:
        print('ASSEMBLE-ERROR:', e)
        sys.exit(2)
    print(meta['file'], len(meta['functions']), 'functions;', meta['extraction'])
