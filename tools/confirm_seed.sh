#!/bin/bash
# usage: confirm_seed.sh <PROP> <N>   — confirm a sub-agent's seeded change in ITS scratch worktree /tmp/seed-<PROP>
# (suite passes with patch; demo fails with patch; demo passes without) and store it under /verif/seeded/<PROP>-<N>/
P=$1; N=$2; PFX=${3:-seed}; TAG=${4:-}; W=/tmp/$PFX-$P; O=$W/out; D=/verif/seeded/$P-$TAG$N
set -u
cd $W || exit 2
git checkout -q -- . ; git clean -fdq -e out -e target
test -f $O/patch$N.diff || { echo "no patch"; exit 2; }
demo=$(python3 -c "import json;print(json.load(open('$O/meta$N.json'))['how_to_run_demo'])")
log=$O/confirm$N.log; : > $log
git apply $O/patch$N.diff || { echo "patch does not apply"; exit 2; }
echo "== suite with patch" >> $log
cargo test --workspace --no-fail-fast --offline >> $log 2>&1; suite=$?
npass=$(grep -E "^test result" $log | awk '{s+=$4} END{print s}')
git apply $O/demo$N.diff || { echo "demo does not apply on patched tree"; }
echo "== demo with patch: $demo" >> $log
( eval "$demo" ) >> $log 2>&1; demo_with=$?
git checkout -q -- . ; git clean -fdq -e out -e target
git apply $O/demo$N.diff
echo "== demo without patch" >> $log
( eval "$demo" ) >> $log 2>&1; demo_without=$?
git checkout -q -- . ; git clean -fdq -e out -e target
echo "suite_exit=$suite passed=$npass demo_with_patch_exit=$demo_with demo_without_patch_exit=$demo_without"
if [ "$suite" = 0 ] && [ "$npass" = 410 ] && [ "$demo_with" != 0 ] && [ "$demo_without" = 0 ]; then
  mkdir -p $D; cp $O/patch$N.diff $D/patch.diff; cp $O/demo$N.diff $D/demo.diff
  python3 - <<PY
import json
m=json.load(open('$O/meta$N.json'))
m['confirmed_by_me']={'suite_exit':$suite,'tests_passed':$npass,'demo_with_patch_exit':$demo_with,'demo_without_patch_exit':$demo_without,
 'what_i_ran':'in a scratch worktree: git apply patch.diff; cargo test --workspace --no-fail-fast --offline (410 pass); git apply demo.diff; demo fails; revert patch; demo passes'}
json.dump(m,open('$D/meta.json','w'),indent=1)
PY
  echo CONFIRMED $D
else
  echo NOT-CONFIRMED
fi
