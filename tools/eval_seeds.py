#!/usr/bin/env python3
"""Apply each confirmed seeded change to /repo, run the check of its property (quick tier), undo, record the verdict."""
import json, os, re, subprocess, sys, glob
V='/verif'
only=sys.argv[1:] 
res=json.load(open(V+'/seeded/results.json')) if os.path.exists(V+'/seeded/results.json') else {}
for d in sorted(glob.glob(V+'/seeded/C*-*')):
    name=os.path.basename(d)
    if only and name not in only and name.split('-')[0] not in only: continue
    prop=name.split('-')[0]
    subprocess.run(['git','-C','/repo','checkout','--','.'])
    ap=subprocess.run(['git','-C','/repo','apply',d+'/patch.diff'],capture_output=True,text=True)
    if ap.returncode!=0:
        res[name]={'status':'patch does not apply on current /repo HEAD','stderr':ap.stderr[-300:]}; continue
    try:
        tier = 'thorough' if '--thorough' in sys.argv else 'quick'
        p=subprocess.run([V+'/check',prop,'--no-evidence','--tier',tier],capture_output=True,text=True,cwd=V)
        out=p.stdout
        viol=re.findall(r'VIOLATION property=\S+ replay=(\S+)(.*)',out)
        labels=[os.path.basename(v[0]).replace('.json','') for v in viol]
        res[name]={'exit':p.returncode,'violations':labels,'undecided':re.findall(r'UNDECIDED: (.*)',out)[:3],'summary':out.strip().split('\n')[-1]}
    finally:
        subprocess.run(['git','-C','/repo','checkout','--','.'])
    print(name, res[name].get('exit'), res[name].get('violations'), res[name].get('undecided'))
    json.dump(res,open(V+'/seeded/results.json','w'),indent=1)
