#!/usr/bin/env python3
"""Mutation test of the CONTRACTS (not of the repository): for every extracted function, apply small syntactic mutations to its
source lines in a scratch copy of the repo, re-assemble the unit and verify ONLY that function (verification is modular: its
callers see the unchanged contract). A mutant that still verifies is a place where the contract does not pin the code down (or an
equivalent mutant). Survivors are listed for review; nothing here decides a property.

usage: mutate.py <scratch-repo-copy> <outdir> <unit> [<unit>...] [--only fn1,fn2] [--max-per-fn N]
"""
import json, os, re, subprocess, sys, time, random
VERIF = os.path.dirname(os.path.dirname(os.path.abspath(__file__)))
sys.path.insert(0, os.path.join(VERIF, 'tools'))
import assemble as asm

OPS = [
    (r'>=', '>'), (r'<=', '<'), (r'(?<![<>=!-])>(?![>=])', '>='), (r'(?<![<>=!])<(?![<=])', '<='),
    (r'==', '!='), (r'!=', '=='),
    (r'&&', '||'), (r'\|\|', '&&'),
    (r'\bchecked_add\b', 'checked_sub'), (r'\bchecked_sub\b', 'checked_add'), (r'\bchecked_mul\b', 'checked_div'), (r'\bchecked_div\b', 'checked_mul'),
    (r'Direction::AddToAmm', 'Direction::RemoveFromAmm'), (r'Direction::RemoveFromAmm', 'Direction::AddToAmm'),
    (r'Side::Buy', 'Side::Sell'), (r'Side::Sell', 'Side::Buy'),
    (r'\btrue\b', 'false'), (r'\bfalse\b', 'true'),
    (r'\bis_zero\(\)', 'is_zero() == false'), (r'!(\w)', r'\1'),
    (r'Uint128::zero\(\)', 'Uint128::new(1)'),
    (r'PnlCalcOption::SpotPrice', 'PnlCalcOption::Twap'), (r'PnlCalcOption::Twap', 'PnlCalcOption::SpotPrice'),
    (r'\.insurance_fund\b', '.fee_pool'), (r'\.fee_pool\b', '.insurance_fund'),
    (r'\bspread_fee\b', 'toll_fee'), (r'\btoll_fee\b', 'spread_fee'),
    (r'\bquote_asset_amount\b', 'base_asset_amount'), (r'\bbase_asset_amount\b', 'quote_asset_amount'),
    (r'_REPLY_ID', '_REPLY_ID_MUT'),
]
DELETE = re.compile(r'^\s*(require_\w+\(.*\)\?;|store_\w+\(.*\)\?;|remove_\w+\(.*\);|validate_\w+\(.*\)\?;|enter_restriction_mode\(.*\)\?;)\s*$')


def code_part(line):
    i = line.find('//')
    return line if i < 0 else line[:i]


def mutants_of_line(line):
    code = code_part(line)
    tail = line[len(code):]
    if not code.strip() or code.strip().startswith('#'):
        return
    if '"' in code:      # keep string literals intact: mutate only the part before the first quote
        q = code.find('"')
        head, rest = code[:q], code[q:]
    else:
        head, rest = code, ''
    for rx, rep in OPS:
        for m in re.finditer(rx, head):
            new = head[:m.start()] + m.expand(rep) + head[m.end():]
            if new != head:
                yield new + rest + tail, '%s -> %s' % (m.group(0), m.expand(rep))
    if DELETE.match(code):
        yield re.sub(r'\S.*$', '/* deleted */', code) + tail, 'delete statement'


def src_range(meta, f):
    lo, hi = None, None
    for k in range(f['out_start'] - 1, f['out_end']):
        o = meta['origins'][k]
        if o.startswith(f['file'] + ':'):
            n = int(o.rsplit(':', 1)[1])
            lo = n if lo is None else min(lo, n)
            hi = n if hi is None else max(hi, n)
    return lo, hi


def verify_fn(path, fn, timeout=600):
    args = ['verus', path, '--output-json', '--triggers-mode', 'silent', '--num-threads', '8', '--verify-only-module', 'unit', '--verify-function', fn]
    try:
        p = subprocess.run(args, capture_output=True, text=True, timeout=timeout, cwd=VERIF)
    except subprocess.TimeoutExpired:
        return 'timeout', None
    try:
        out = json.loads(p.stdout)
        vr = out['verification-results']
    except Exception:
        return 'invalid', None
    if vr.get('encountered-vir-error') or (vr.get('encountered-error') and vr.get('errors', 0) == 0):
        return 'invalid', None
    if vr.get('errors', 0) > 0:
        return 'killed', vr
    if vr.get('verified', 0) == 0:
        return 'invalid', vr
    return 'survived', vr


def main():
    repo, outdir = sys.argv[1], sys.argv[2]
    rest = sys.argv[3:]
    only, maxper = None, 10 ** 6
    units = []
    i = 0
    while i < len(rest):
        if rest[i] == '--only':
            only = set(rest[i + 1].split(',')); i += 2
        elif rest[i] == '--max-per-fn':
            maxper = int(rest[i + 1]); i += 2
        else:
            units.append(rest[i]); i += 1
    os.makedirs(outdir, exist_ok=True)
    report = os.path.join(outdir, 'mutation_report.jsonl')
    rnd = random.Random(int(os.environ.get('MUT_SEED', '7')))
    for unit in units:
        meta = asm.assemble(unit, repo, 'partial', outdir)
        for f in meta['functions']:
            if only and f['name'] not in only:
                continue
            if f.get('stubbed') or not f.get('labels'):
                continue
            vname = f['name'] if not f.get('impl') else None
            lo, hi = src_range(meta, f)
            if lo is None:
                continue
            path = os.path.join(repo, f['file'])
            orig = open(path).read()
            lines = orig.split('\n')
            cands = []
            body_from = lo
            for n in range(lo, hi + 1):      # skip the signature: the body starts after the first line that ends with '{'
                if code_part(lines[n - 1]).rstrip().endswith('{'):
                    body_from = n + 1
                    break
            for n in range(body_from, hi + 1):
                for new, what in mutants_of_line(lines[n - 1]):
                    cands.append((n, new, what))
            # the signature lines hold no code to mutate except defaults; fine
            if len(cands) > maxper:
                cands = rnd.sample(cands, maxper)
            # baseline: the function verifies unmutated when checked alone
            fn_arg = f['name']
            meta = asm.assemble(unit, repo, 'partial', outdir)      # fresh assembly of the unmutated tree
            base, _ = verify_fn(meta['file'], fn_arg)
            if base != 'survived':
                print('SKIP %s::%s baseline=%s' % (unit, f['name'], base), flush=True)
                continue
            for n, new, what in cands:
                ml = list(lines)
                ml[n - 1] = new
                open(path, 'w').write('\n'.join(ml))
                try:
                    try:
                        m2 = asm.assemble(unit, repo, 'partial', outdir)
                        if m2.get('stubbed', {}).get(f['name']):
                            verdict = 'undecided'
                        else:
                            verdict, _ = verify_fn(m2['file'], fn_arg)
                    except asm.AssembleError as e:
                        verdict = 'undecided'
                finally:
                    open(path, 'w').write(orig)
                rec = {'unit': unit, 'fn': f['name'], 'file': f['file'], 'line': n, 'mutation': what, 'old': lines[n - 1].strip(), 'new': new.strip(), 'verdict': verdict}
                with open(report, 'a') as fh:
                    fh.write(json.dumps(rec) + '\n')
                if verdict == 'survived':
                    print('SURVIVED %s::%s %s:%d  %s   | %s' % (unit, f['name'], f['file'], n, what, new.strip()[:110]), flush=True)
    print('done', flush=True)


if __name__ == '__main__':
    main()
