#!/bin/bash
# confirm every delivered seed that is not yet confirmed, sequentially.  usage: confirm_all.sh [prefix [tag]]
PFX=${1:-seed}; TAG=${2:-}
cd /verif
for d in /tmp/$PFX-C*; do
  P=$(basename $d | sed "s/$PFX-//")
  for N in 1 2; do
    [ -f $d/out/patch$N.diff ] || continue
    [ -f $d/out/meta$N.json ] || continue
    [ -d /verif/seeded/$P-$TAG$N ] && continue
    [ -f build/probe/confirm_${P}_${TAG}${N}.txt ] && grep -q "CONFIRMED" build/probe/confirm_${P}_${TAG}${N}.txt && continue
    tools/confirm_seed.sh $P $N $PFX $TAG > build/probe/confirm_${P}_${TAG}${N}.txt 2>&1
  done
done
