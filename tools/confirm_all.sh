#!/bin/bash
# confirm every delivered seed that is not yet confirmed, sequentially
cd /verif
for d in /tmp/seed-C*; do
  P=$(basename $d | sed 's/seed-//')
  for N in 1 2; do
    [ -f $d/out/patch$N.diff ] || continue
    [ -d /verif/seeded/$P-$N ] && continue
    [ -f build/probe/confirm_${P}_${N}.txt ] && grep -q "CONFIRMED" build/probe/confirm_${P}_${N}.txt && continue
    tools/confirm_seed.sh $P $N > build/probe/confirm_${P}_${N}.txt 2>&1
  done
done
