#!/usr/bin/env python3
"""False-alarm test: apply each behaviour-preserving change (a .diff) to /repo, run ALL 20 quick checks, undo; report any VIOLATION.
usage: eval_benign.py <diff>...   (results appended to seeded/benign_results.json)"""
import json, os, re, subprocess, sys
V = '/verif'
out_p = V + '/seeded/benign_results.json'
res = json.load(open(out_p)) if os.path.exists(out_p) else {}
props = ['C%02d' % i for i in range(1, 21)]
for d in sys.argv[1:]:
    d = os.path.abspath(d)
    name = os.path.basename(d)
    subprocess.run(['git', '-C', '/repo', 'checkout', '--', '.'])
    ap = subprocess.run(['git', '-C', '/repo', 'apply', d], capture_output=True, text=True)
    if ap.returncode != 0:
        res[name] = {'status': 'patch does not apply', 'stderr': ap.stderr[-300:]}
        print(name, res[name])
        continue
    r = {}
    try:
        for p in props:
            pr = subprocess.run([V + '/check', p, '--no-evidence'], capture_output=True, text=True, cwd=V)
            viol = re.findall(r'VIOLATION property=\S+ replay=(\S+)', pr.stdout)
            und = re.findall(r'UNDECIDED: (.*)', pr.stdout)
            if pr.returncode != 0:
                r[p] = {'exit': pr.returncode, 'violations': [os.path.basename(v) for v in viol], 'undecided': [u[:200] for u in und[:2]]}
    finally:
        subprocess.run(['git', '-C', '/repo', 'checkout', '--', '.'])
    res[name] = {'non_zero': r}
    alarms = {p: v['violations'] for p, v in r.items() if v['exit'] == 1}
    print(name, 'ALARMS' if alarms else 'no alarm', alarms, 'undecided:', sorted(p for p, v in r.items() if v['exit'] == 2))
    json.dump(res, open(out_p, 'w'), indent=1)
