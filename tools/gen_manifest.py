#!/usr/bin/env python3
"""Generate MANIFEST.json from props.json (claimed properties) + manifest_meta.json (texts)."""
import json, os
V = os.path.dirname(os.path.dirname(os.path.abspath(__file__)))
props = json.load(open(os.path.join(V, 'props.json')))
meta = json.load(open(os.path.join(V, 'manifest_meta.json')))
allp = [json.loads(l)['id'] for l in open(os.path.join(V, 'properties.jsonl'))]
checks = []
for pid in allp:
    if pid not in props or props[pid].get('unclaimed'):
        continue
    m = meta['checks'].get(pid, {})
    checks.append({
        'property_id': pid,
        'quick_cmd': './check %s --tier quick' % pid,
        'thorough_cmd': './check %s --tier thorough' % pid,
        'evidence_file': '/verif/evidence/%s.json' % pid,
        'replay_cmd_template': './check %s --replay {path}' % pid,
        'engine': 'contracts',
        'level_claimed': {'category': props[pid].get('level', 'proof'), 'text': m.get('level_text', ''), 'design_ref': m.get('design_ref', 'DESIGN.md §7 ' + pid)},
        'level_note': m.get('level_note', ''),
        'technique': m.get('technique', 'contract-based deductive verification (Verus function contracts on extracted real code)'),
    })
na = [{'property_id': p, 'reason': meta['not_applicable'].get(p, 'no check built yet in this session; see DESIGN.md §7')} for p in allp if p not in props or props[p].get('unclaimed')]
man = {
    'version': 1,
    'setup_cmd': meta['setup_cmd'],
    'hooks': meta['hooks'],
    'engines': meta['engines'],
    'checks': checks,
    'notes': meta['notes'],
    'not_applicable': na,
}
json.dump(man, open(os.path.join(V, 'MANIFEST.json'), 'w'), indent=1)
print(len(checks), 'checks;', len(na), 'not applicable')
