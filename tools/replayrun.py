#!/usr/bin/env python3
"""Run witness / regression scenarios of /verif/replay against the REAL contracts of a repo tree (cw-multi-test). Replay only:
never decides a property, only confirms that a listed finding still reproduces (or that a repaired defect stays repaired)."""
import hashlib, json, os, re, shutil, subprocess, sys, time
VERIF = os.path.dirname(os.path.dirname(os.path.abspath(__file__)))
RDIR = os.path.join(VERIF, 'replay')


def crate_for(repo):
    if os.path.abspath(repo) == '/repo':
        d = RDIR
    else:
        h = hashlib.sha256(os.path.abspath(repo).encode()).hexdigest()[:10]
        d = os.path.join(VERIF, 'build', 'replay-' + h)
        # keep an existing target directory (incremental rebuild of the path dependencies), refresh the sources
        shutil.copytree(RDIR, d, ignore=shutil.ignore_patterns('target', 'Cargo.lock'), dirs_exist_ok=True)
        for fn in ('Cargo.toml',):
            t = open(os.path.join(d, fn)).read().replace('"/repo/', '"%s/' % os.path.abspath(repo))
            open(os.path.join(d, fn), 'w').write(t)
    shutil.copyfile(os.path.join(repo, 'Cargo.lock'), os.path.join(d, 'Cargo.lock'))
    return d


def run_tests(names, repo='/repo', timeout=1800, use_cache=True):
    """returns {name: 'passed'|'failed'|'missing'}"""
    d = crate_for(repo)
    env = dict(os.environ, CARGO_NET_OFFLINE='true')
    res = {}
    cmd = ['cargo', 'test', '--offline', '--no-fail-fast', '--'] + ['--test-threads', '8']
    t0 = time.time()
    # the whole replay suite is run at once; its output is cached by the content of every source it is built from (paths relative to
    # the tree), so the checks of one tree state share one run
    h = hashlib.sha256()
    for base, roots in ((repo, [os.path.join(repo, 'contracts'), os.path.join(repo, 'packages')]), (RDIR, [os.path.join(RDIR, 'src'), os.path.join(RDIR, 'tests')])):
        for root in roots:
            for dp, dn, fs in sorted(os.walk(root)):
                dn[:] = sorted(x for x in dn if x not in ('target', 'artifacts', 'schema'))
                for f in sorted(fs):
                    if f.endswith(('.rs', '.toml')):
                        pth = os.path.join(dp, f)
                        h.update(os.path.relpath(pth, base).encode()); h.update(open(pth, 'rb').read())
    h.update(open(os.path.join(repo, 'Cargo.lock'), 'rb').read())
    cdir = os.path.join(VERIF, '.cache'); os.makedirs(cdir, exist_ok=True)
    cpath = os.path.join(cdir, 'replay-%s.txt' % h.hexdigest()[:24])
    if use_cache and os.path.isfile(cpath):
        out = open(cpath).read()
    else:
        try:
            p = subprocess.run(cmd, cwd=d, env=env, capture_output=True, text=True, timeout=timeout)
            out = p.stdout + p.stderr
        except subprocess.TimeoutExpired:
            return {'status': 'undecided', 'reason': 'replay timeout', 'results': {}}
        if 'test result:' in out and 'could not compile' not in out:
            open(cpath, 'w').write(out)
    for n in names:
        m = re.search(r'test ' + re.escape(n) + r' \.\.\. (ok|FAILED|ignored)', out)
        res[n] = {'ok': 'passed', 'FAILED': 'failed', 'ignored': 'ignored'}.get(m.group(1)) if m else 'missing'
    st = 'ok' if all(v != 'missing' for v in res.values()) else 'undecided'
    return {'status': st, 'results': res, 'wall_s': round(time.time() - t0, 1), 'cmd': 'cd %s && cargo test --offline' % d,
            'reason': None if st == 'ok' else 'replay tests missing (build error?): ' + out[-800:]}


if __name__ == '__main__':
    print(json.dumps(run_tests(sys.argv[1:]), indent=1))
