#!/usr/bin/env python3
"""Apply the output of tools/label_deps.py: a clause that another function's clause for property P is proved from serves P as well.
Dependants inside the dispatchers (execute / query / reply: their routing clauses carry the union of the handlers' properties) are ignored.
usage: apply_label_deps.py <deps.json>... [--dry]"""
import json, re, sys, os
V = os.path.dirname(os.path.dirname(os.path.abspath(__file__)))
DISPATCH = {'execute', 'query', 'reply'}
dry = '--dry' in sys.argv
LABEL_RX = re.compile(r'//#\s*([A-Z0-9, ]+?)\s+(\w+)\s*$')
edits = {}
for f in [a for a in sys.argv[1:] if not a.startswith('--')]:
    for key, r in json.load(open(f)).items():
        if 'dependants' not in r:
            continue
        need = set()
        for d in r['dependants']:
            if d['fn'] in DISPATCH:
                continue
            need |= set(d['props'])
        need -= set(r['props'])
        if need:
            path, line = r['spec'].rsplit(':', 1)
            edits.setdefault(path, {})[int(line)] = (key.split('@')[0], sorted(need))
n = 0
for path, es in edits.items():
    p = os.path.join(V, path)
    L = open(p).read().split('\n')
    for line, (name, need) in es.items():
        m = LABEL_RX.search(L[line - 1]) if line - 1 < len(L) else None
        if not m or m.group(2) != name:
            # the spec file was edited since the analysis: look for the same label nearby
            cand = [k for k in range(max(0, line - 80), min(len(L), line + 80)) if (LABEL_RX.search(L[k]) and LABEL_RX.search(L[k]).group(2) == name)]
            if len(cand) != 1:
                print('SKIP (label moved):', path, line, name); continue
            line = cand[0] + 1
            m = LABEL_RX.search(L[line - 1])
        props = [x.strip() for x in m.group(1).split(',') if x.strip()]
        new = props + [x for x in need if x not in props]
        L[line - 1] = L[line - 1][:m.start()] + '//# %s %s' % (','.join(new), name)
        n += 1
        print('%s:%d %s += %s' % (path, line, name, ','.join(need)))
    if not dry:
        open(p, 'w').write('\n'.join(L))
print(n, 'labels extended', '(dry run)' if dry else '')
