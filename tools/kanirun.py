#!/usr/bin/env python3
"""Run Kani harnesses of /verif/kani against the real crates of a repo tree; parse per-harness verdicts."""
import hashlib, json, os, re, shutil, subprocess, sys, time

VERIF = os.path.dirname(os.path.dirname(os.path.abspath(__file__)))
KDIR = os.path.join(VERIF, 'kani')
CACHE = os.path.join(VERIF, '.cache')


def crate_for(repo):
    """The harness crate with path dependencies pointing at `repo` (a generated copy unless repo is /repo)."""
    if os.path.abspath(repo) == '/repo':
        d = KDIR
    else:
        h = hashlib.sha256(os.path.abspath(repo).encode()).hexdigest()[:10]
        d = os.path.join(VERIF, 'build', 'kani-' + h)
        shutil.copytree(KDIR, d, ignore=shutil.ignore_patterns('target', 'Cargo.lock'), dirs_exist_ok=True)
        t = open(os.path.join(d, 'Cargo.toml')).read().replace('"/repo/', '"%s/' % os.path.abspath(repo))
        open(os.path.join(d, 'Cargo.toml'), 'w').write(t)
    shutil.copyfile(os.path.join(repo, 'Cargo.lock'), os.path.join(d, 'Cargo.lock'))
    return d


def src_hash(repo):
    h = hashlib.sha256()
    # content hash with paths relative to the tree: two trees with the same sources share results
    for base, root in ((repo, os.path.join(repo, 'packages', 'margined_common', 'src')), (KDIR, os.path.join(KDIR, 'src'))):
        for dp, _, fs in sorted(os.walk(root)):
            for f in sorted(fs):
                p = os.path.join(dp, f)
                h.update(os.path.relpath(p, base).encode()); h.update(open(p, 'rb').read())
    h.update(open(os.path.join(repo, 'Cargo.lock'), 'rb').read())
    return h.hexdigest()


def parse(out):
    """Per-harness verdicts; handles both sequential and `-j` (thread-prefixed) output."""
    res, cur, blocks = [], {}, {}
    th = None
    for ln in out.split('\n'):
        m = re.match(r'Thread (\d+): ?(.*)$', ln)
        if m:
            th, rest = m.group(1), m.group(2)
        else:
            rest = ln
            if th is None:
                th = 'seq'
        mc = re.match(r'Checking harness (\S+?)\.\.\.', rest)
        if mc:
            if not m:
                th = 'seq'
            cur[th] = mc.group(1)
            blocks.setdefault(cur[th], [])
            continue
        if th in cur:
            blocks[cur[th]].append(rest)
    for name, lines in blocks.items():
        b = '\n'.join(lines)
        m = re.search(r'VERIFICATION:- (SUCCESSFUL|FAILED)', b)
        result = {'SUCCESSFUL': 'SUCCESS', 'FAILED': 'FAILURE'}.get(m.group(1)) if m else 'UNKNOWN'
        tm = re.search(r'Verification Time: ([0-9.]+)s', b)
        fc = re.findall(r'Failed Checks: (.*)', b)
        if result == 'FAILURE' and fc and all('unwinding assertion' in x or 'unsupported' in x.lower() for x in fc):
            result = 'UNDECIDED(unwinding/unsupported)'
        res.append({'name': name.split('::')[-1], 'result': result, 'time_s': float(tm.group(1)) if tm else None,
                    'failed_checks': fc, 'log_tail': b[-1500:]})
    return res


def run_harnesses(names, repo='/repo', use_cache=True, jobs=8, timeout=3000, extra=None):
    os.makedirs(CACHE, exist_ok=True)
    key = hashlib.sha256((src_hash(repo) + ','.join(sorted(names)) + ' '.join(extra or [])).encode()).hexdigest()[:24]
    cpath = os.path.join(CACHE, 'kani-%s.json' % key)
    if use_cache and os.path.isfile(cpath):
        r = json.load(open(cpath)); r['cached'] = True
        return r
    d = crate_for(repo)
    cmd = ['cargo', 'kani', '-Z', 'stubbing', '-j', str(jobs), '--output-format', 'terse'] + (extra or [])
    for n in names:
        cmd += ['--harness', n]
    env = dict(os.environ, CARGO_NET_OFFLINE='true')
    t0 = time.time()
    try:
        p = subprocess.run(cmd, cwd=d, env=env, capture_output=True, text=True, timeout=timeout)
        out = p.stdout + p.stderr
    except subprocess.TimeoutExpired as e:
        return {'status': 'undecided', 'reason': 'kani timeout after %ds' % timeout, 'cmd': ' '.join(cmd), 'harnesses': []}
    hs = parse(out)
    r = {'status': 'ok', 'cmd': 'cd %s && CARGO_NET_OFFLINE=true %s' % (d, ' '.join(cmd)), 'harnesses': hs,
         'wall_s': round(time.time() - t0, 1), 'cached': False}
    seen = {h['name'] for h in hs}
    missing = [n for n in names if n not in seen]
    if missing:
        r['status'] = 'undecided'
        r['reason'] = 'harnesses without verdict (compile error?): %s\n%s' % (missing, out[-1500:])
    else:
        json.dump(r, open(cpath, 'w'))
    return r


def concrete_playback(harness, repo='/repo', timeout=900):
    d = crate_for(repo)
    cmd = ['cargo', 'kani', '-Z', 'stubbing', '-Z', 'concrete-playback', '--concrete-playback=print', '--harness', harness]
    env = dict(os.environ, CARGO_NET_OFFLINE='true')
    p = subprocess.run(cmd, cwd=d, env=env, capture_output=True, text=True, timeout=timeout)
    out = p.stdout + p.stderr
    m = re.search(r'Concrete playback unit test for `[^`]*`:\s*```(.*?)```', out, re.S)
    vals = re.findall(r'//\s*(-?\d+(?:u128|u64|u8)?|true|false)\s*\n', m.group(1)) if m else []
    return {'harness': harness, 'playback_test': m.group(1).strip() if m else None, 'values': vals,
            'how_to_replay': 'cd /verif/kani && CARGO_NET_OFFLINE=true cargo kani -Z stubbing --harness %s  (or paste the unit test into kani/src/lib.rs and run cargo kani playback)' % harness}


if __name__ == '__main__':
    r = run_harnesses(sys.argv[1:], use_cache=False)
    for h in r.get('harnesses', []):
        print(h['name'], h['result'], h['time_s'], h['failed_checks'])
    print(r.get('reason', ''))
