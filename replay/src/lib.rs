//! Shared deployment helpers for the replay tests.
