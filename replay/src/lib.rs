//! Shared deployment helpers for the replay tests.
//!
//! The scenario structs of `margined_utils::scenarios` deploy exactly one vAMM with fixed
//! reserves and keep their `contract_*()` wrappers private.  The witness scenarios need a
//! second vAMM (F14a), a vAMM priced below 1 (F02a) and the *real* price feed (F07d), so the
//! same wrappers are re-declared here around the real entry points of the /repo crates.

use cosmwasm_std::{Addr, Empty, Uint128};
use cw_multi_test::{App, Contract, ContractWrapper, Executor};
use margined_perp::margined_pricefeed::InstantiateMsg as PricefeedInstantiateMsg;
use margined_perp::margined_vamm::{
    ExecuteMsg as VammExecuteMsg, InstantiateMsg as VammInstantiateMsg,
};
use margined_utils::contracts::helpers::{
    InsuranceFundController, PricefeedController, VammController,
};

pub fn contract_vamm() -> Box<dyn Contract<Empty>> {
    Box::new(ContractWrapper::new_with_empty(
        margined_vamm::contract::execute,
        margined_vamm::contract::instantiate,
        margined_vamm::contract::query,
    ))
}

/// The repository's own price feed (contracts/margined_pricefeed), NOT the mock.
pub fn contract_real_pricefeed() -> Box<dyn Contract<Empty>> {
    Box::new(ContractWrapper::new_with_empty(
        margined_pricefeed::contract::execute,
        margined_pricefeed::contract::instantiate,
        margined_pricefeed::contract::query,
    ))
}

pub fn contract_mock_pricefeed() -> Box<dyn Contract<Empty>> {
    Box::new(ContractWrapper::new_with_empty(
        mock_pricefeed::contract::execute,
        mock_pricefeed::contract::instantiate,
        mock_pricefeed::contract::query,
    ))
}

/// Parameters of an additional vAMM.  Amounts are raw (already scaled by 10^decimals).
#[derive(Clone, Debug)]
pub struct VammParams {
    pub decimals: u8,
    pub quote_asset: String,
    pub base_asset: String,
    pub quote_asset_reserve: Uint128,
    pub base_asset_reserve: Uint128,
    pub funding_period: u64,
    pub toll_ratio: Uint128,
    pub spread_ratio: Uint128,
    pub fluctuation_limit_ratio: Uint128,
}

impl VammParams {
    /// Same market as `SimpleScenario` (9 decimals, 1000 quote / 100 base, no fees, no limit).
    pub fn like_simple_scenario() -> Self {
        VammParams {
            decimals: 9,
            quote_asset: "ETH".to_string(),
            base_asset: "USD".to_string(),
            quote_asset_reserve: Uint128::new(1_000_000_000_000),
            base_asset_reserve: Uint128::new(100_000_000_000),
            funding_period: 86_400,
            toll_ratio: Uint128::zero(),
            spread_ratio: Uint128::zero(),
            fluctuation_limit_ratio: Uint128::zero(),
        }
    }
}

/// Instantiates a further vAMM owned by `owner`, wires it to `engine`, opens it and (if an
/// insurance fund is given) registers it there, exactly like the scenario constructors do for
/// their first vAMM.
pub fn deploy_vamm(
    router: &mut App,
    owner: &Addr,
    engine: &Addr,
    insurance_fund: Option<&InsuranceFundController>,
    pricefeed: &Addr,
    params: &VammParams,
    label: &str,
) -> VammController {
    let vamm_id = router.store_code(contract_vamm());
    let vamm_addr = router
        .instantiate_contract(
            vamm_id,
            owner.clone(),
            &VammInstantiateMsg {
                decimals: params.decimals,
                quote_asset: params.quote_asset.clone(),
                base_asset: params.base_asset.clone(),
                quote_asset_reserve: params.quote_asset_reserve,
                base_asset_reserve: params.base_asset_reserve,
                funding_period: params.funding_period,
                toll_ratio: params.toll_ratio,
                spread_ratio: params.spread_ratio,
                fluctuation_limit_ratio: params.fluctuation_limit_ratio,
                pricefeed: pricefeed.to_string(),
                margin_engine: None,
                insurance_fund: insurance_fund.map(|f| f.addr().to_string()),
            },
            &[],
            label,
            None,
        )
        .unwrap();
    let vamm = VammController(vamm_addr.clone());

    router
        .execute_contract(
            owner.clone(),
            vamm_addr,
            &VammExecuteMsg::UpdateConfig {
                base_asset_holding_cap: None,
                open_interest_notional_cap: None,
                toll_ratio: None,
                spread_ratio: None,
                fluctuation_limit_ratio: None,
                margin_engine: Some(engine.to_string()),
                insurance_fund: None,
                pricefeed: None,
                spot_price_twap_interval: None,
            },
            &[],
        )
        .unwrap();

    let msg = vamm.set_open(true).unwrap();
    router.execute(owner.clone(), msg).unwrap();

    if let Some(fund) = insurance_fund {
        let msg = fund.add_vamm(vamm.addr().to_string()).unwrap();
        router.execute(owner.clone(), msg).unwrap();
    }

    vamm
}

/// Instantiates the repository's real price feed, owned by `owner`.
pub fn deploy_real_pricefeed(router: &mut App, owner: &Addr) -> PricefeedController {
    let id = router.store_code(contract_real_pricefeed());
    let addr = router
        .instantiate_contract(
            id,
            owner.clone(),
            &PricefeedInstantiateMsg {
                oracle_hub_contract: "oracle_hub0000".to_string(),
            },
            &[],
            "real_pricefeed",
            None,
        )
        .unwrap();
    PricefeedController(addr)
}

/// Instantiates a further mock price feed, owned by `owner`.
pub fn deploy_mock_pricefeed(router: &mut App, owner: &Addr) -> PricefeedController {
    let id = router.store_code(contract_mock_pricefeed());
    let addr = router
        .instantiate_contract(
            id,
            owner.clone(),
            &PricefeedInstantiateMsg {
                oracle_hub_contract: "oracle_hub0000".to_string(),
            },
            &[],
            "mock_pricefeed",
            None,
        )
        .unwrap();
    PricefeedController(addr)
}

/// Full error chain of a cw-multi-test failure as one string (outermost context first).
pub fn error_chain(err: &anyhow::Error) -> String {
    err.chain()
        .map(|e| e.to_string())
        .collect::<Vec<_>>()
        .join(" | ")
}

/// Advances the chain by one block / `seconds` seconds.
pub fn next_block(router: &mut App, seconds: u64) {
    router.update_block(|block| {
        block.time = block.time.plus_seconds(seconds);
        block.height += 1;
    });
}
