//! F07a / F07b (property C07): with a non-zero `partial_liquidation_ratio`, `liquidate` selects
//! the partial path whenever `margin_ratio.value > liquidation_fee` -- `.value` is the ABSOLUTE
//! value, so a deeply negative ratio qualifies (F07b) -- and `partial_liquidation_reply` then
//! computes `margin - |realized_pnl| - penalty` in unsigned arithmetic.  Once the position's
//! loss times the partial ratio exceeds its margin, the subtraction underflows and the
//! liquidation of exactly the positions that need it most reverts.

use cosmwasm_std::Uint128;
use cw_multi_test::Executor;
use margined_common::integer::Integer;
use margined_perp::margined_engine::{PnlCalcOption, Side};
use margined_utils::scenarios::{to_decimals, SimpleScenario};
use verif_replay::{error_chain, next_block};

#[derive(Debug)]
struct Outcome {
    margin: Uint128,
    unrealized_pnl: Integer,
    margin_ratio: Integer,
    result: Result<(), String>,
    position_exists_after: bool,
}

fn liquidate_deeply_underwater_long(partial_liquidation_ratio: Uint128) -> Outcome {
    let SimpleScenario {
        mut router,
        alice,
        bob,
        carol,
        owner,
        engine,
        vamm,
        ..
    } = SimpleScenario::new();

    let msg = engine
        .set_partial_liquidation_ratio(partial_liquidation_ratio)
        .unwrap();
    router.execute(owner.clone(), msg).unwrap();

    // alice: long, margin 25, 10x -> notional 250, size 20            (reserves 1250 / 80)
    let msg = engine
        .open_position(
            vamm.addr().to_string(),
            Side::Buy,
            to_decimals(25),
            to_decimals(10),
            Uint128::zero(),
            vec![],
        )
        .unwrap();
    router.execute(alice.clone(), msg).unwrap();
    next_block(&mut router, 15);

    // bob: short 500 notional at 1x                                   (reserves 750 / 133.33)
    // alice's 20 base are now worth ~97.8: a loss of ~152, six times her margin
    let msg = engine
        .open_position(
            vamm.addr().to_string(),
            Side::Sell,
            to_decimals(500),
            to_decimals(1),
            Uint128::zero(),
            vec![],
        )
        .unwrap();
    router.execute(bob.clone(), msg).unwrap();
    next_block(&mut router, 15);

    let position = engine
        .position(&router, vamm.addr().to_string(), alice.to_string())
        .unwrap();
    let unrealized_pnl = engine
        .get_unrealized_pnl(
            &router,
            vamm.addr().to_string(),
            alice.to_string(),
            PnlCalcOption::SpotPrice,
        )
        .unwrap()
        .unrealized_pnl;
    let margin_ratio = engine
        .get_margin_ratio(&router, vamm.addr().to_string(), alice.to_string())
        .unwrap();

    // carol liquidates
    let msg = engine
        .liquidate(
            vamm.addr().to_string(),
            alice.to_string(),
            Uint128::zero(),
        )
        .unwrap();
    let result = router
        .execute(carol.clone(), msg)
        .map(|_| ())
        .map_err(|e| error_chain(&e));

    let position_exists_after = engine
        .position(&router, vamm.addr().to_string(), alice.to_string())
        .is_ok();

    Outcome {
        margin: position.margin,
        unrealized_pnl,
        margin_ratio,
        result,
        position_exists_after,
    }
}

#[test]
fn f07a_partial_liquidation_fails_for_deeply_underwater_position() {
    let partial = liquidate_deeply_underwater_long(Uint128::new(250_000_000)); // 0.25
    let full = liquidate_deeply_underwater_long(Uint128::zero());
    println!("F07a partial ratio 0.25: {:?}", partial);
    println!("F07a partial ratio 0   : {:?}", full);

    // same position in both runs: loss is several times the margin, margin ratio far below the
    // 5 % maintenance ratio (it is negative), so the position MUST be liquidatable
    for o in [&partial, &full] {
        assert_eq!(o.margin, to_decimals(25));
        assert!(o.unrealized_pnl < Integer::new_negative(to_decimals(150)));
        assert!(o.unrealized_pnl.value > o.margin * Uint128::new(6));
        // negative, and in absolute value above the 5 % liquidation fee (F07b: that absolute
        // value is what selects the partial path)
        assert!(o.margin_ratio < Integer::new_negative(50_000_000u128));
    }
    assert_eq!(partial.unrealized_pnl, full.unrealized_pnl);

    // DEFECT: with partial liquidation enabled the liquidation reverts with an unsigned
    // underflow: margin 25 - |pnl| * 0.25 (~38) ...
    // (correct behaviour: the position is liquidated -- fully, since its margin ratio is below
    //  the liquidation fee -- exactly as in the control run)
    let err = partial.result.as_ref().unwrap_err();
    assert!(err.contains("Overflow: Cannot Sub with 25000000000 and"), "{}", err);
    assert!(partial.position_exists_after);

    // control: the same position with partial_liquidation_ratio = 0 liquidates fine
    assert_eq!(full.result, Ok(()));
    assert!(!full.position_exists_after);
}
