//! T10 - CONFORMANCE tests (must pass): the engine keeps one position per (vAMM, trader) pair and
//! the storage key it derives from the two addresses does not alias positions of different
//! traders / different vAMMs, however similar the addresses are.  Only the public contract
//! interface is used (OpenPosition / ClosePosition / Position query).

use cosmwasm_std::{Addr, Empty, Uint128};
use cw20::Cw20ExecuteMsg;
use cw_multi_test::{App, Executor};
use margined_common::integer::Integer;
use margined_perp::margined_engine::{Position, Side};
use margined_perp::margined_vamm::Direction;
use margined_utils::contracts::helpers::{EngineController, VammController};
use margined_utils::scenarios::{to_decimals, SimpleScenario};
use verif_replay::{deploy_vamm, next_block, VammParams};

struct Order {
    trader: Addr,
    side: Side,
    margin: u64,
    leverage: u64,
}

fn open(router: &mut App, engine: &EngineController, vamm: &VammController, o: &Order) -> Position {
    let msg = engine
        .open_position(
            vamm.addr().to_string(),
            o.side.clone(),
            to_decimals(o.margin),
            to_decimals(o.leverage),
            Uint128::zero(),
            vec![],
        )
        .unwrap();
    router.execute(o.trader.clone(), msg).unwrap();
    next_block(router, 15);

    // what the trader just opened, as the engine reports it right away
    let p = engine
        .position(&*router, vamm.addr().to_string(), o.trader.to_string())
        .unwrap();
    assert_eq!(p.trader, o.trader);
    assert_eq!(p.vamm, vamm.addr());
    assert_eq!(p.margin, to_decimals(o.margin));
    assert_eq!(p.notional, to_decimals(o.margin * o.leverage));
    match o.side {
        Side::Buy => {
            assert_eq!(p.direction, Direction::AddToAmm);
            assert!(p.size > Integer::zero());
        }
        Side::Sell => {
            assert_eq!(p.direction, Direction::RemoveFromAmm);
            assert!(p.size < Integer::zero());
        }
    }
    p
}

#[test]
fn t10_positions_of_similar_addresses_do_not_alias() {
    let SimpleScenario {
        mut router,
        owner,
        alice,
        bob,
        engine,
        vamm,
        usdc,
        ..
    } = SimpleScenario::new();

    // (a) two 43-character addresses sharing their first 40 characters
    let prefix40 = format!("wasm1{}", "q".repeat(35));
    assert_eq!(prefix40.len(), 40);
    let a1 = Addr::unchecked(format!("{}aaa", prefix40));
    let a2 = Addr::unchecked(format!("{}aab", prefix40));
    assert_eq!((a1.as_str().len(), a2.as_str().len()), (43, 43));
    assert_eq!(a1.as_str()[..40], a2.as_str()[..40]);
    // (b) two addresses that differ only in their first character
    let b1 = Addr::unchecked(format!("xasm1{}", "b".repeat(38)));
    let b2 = Addr::unchecked(format!("yasm1{}", "b".repeat(38)));
    assert_eq!(b1.as_str()[1..], b2.as_str()[1..]);
    // (c) an address that is a strict prefix of another
    let c1 = Addr::unchecked(format!("wasm1{}", "a".repeat(38)));
    let c2 = Addr::unchecked(format!("{}b", c1));
    assert_eq!(c1.as_str(), "wasm1aaaaaaaaaaaaaaaaaaaaaaaaaaaaaaaaaaaaaa");
    assert!(c2.as_str().starts_with(c1.as_str()) && c2.as_str().len() == c1.as_str().len() + 1);

    // fund the new accounts: the scenario's token owner is the cw20 minter (it holds no balance
    // itself), so it mints to them; each then approves the engine like alice / bob
    for who in [&a1, &a2, &b1, &b2, &c1, &c2] {
        router
            .execute_contract(
                owner.clone(),
                usdc.addr(),
                &Cw20ExecuteMsg::Mint {
                    recipient: who.to_string(),
                    amount: to_decimals(5_000),
                },
                &[],
            )
            .unwrap();
        router
            .execute_contract(
                who.clone(),
                usdc.addr(),
                &Cw20ExecuteMsg::IncreaseAllowance {
                    spender: engine.addr().to_string(),
                    amount: to_decimals(2_000),
                    expires: None,
                },
                &[],
            )
            .unwrap();
    }

    // (d) plus the scenario's own alice / bob.  All margins / notionals differ, sides are mixed.
    let orders = vec![
        Order { trader: a1.clone(), side: Side::Buy, margin: 10, leverage: 3 },
        Order { trader: a2.clone(), side: Side::Sell, margin: 20, leverage: 2 },
        Order { trader: b1.clone(), side: Side::Buy, margin: 30, leverage: 2 },
        Order { trader: b2.clone(), side: Side::Sell, margin: 45, leverage: 1 },
        Order { trader: c1.clone(), side: Side::Sell, margin: 50, leverage: 2 },
        Order { trader: c2.clone(), side: Side::Buy, margin: 60, leverage: 3 },
        Order { trader: alice.clone(), side: Side::Buy, margin: 70, leverage: 1 },
        Order { trader: bob.clone(), side: Side::Sell, margin: 80, leverage: 2 },
    ];
    let mut opened: Vec<Position> = vec![];
    for o in &orders {
        // nobody has a position before opening their own (no pre-existing alias)
        assert!(engine
            .position(&router, vamm.addr().to_string(), o.trader.to_string())
            .is_err());
        opened.push(open(&mut router, &engine, &vamm, o));
    }
    // the positions are pairwise different, so an alias could not go unnoticed
    for i in 0..opened.len() {
        for j in (i + 1)..opened.len() {
            assert_ne!(opened[i].size, opened[j].size);
            assert_ne!(opened[i].margin, opened[j].margin);
            assert_ne!(opened[i].notional, opened[j].notional);
        }
    }

    // after ALL opens every trader still has exactly the position they opened
    for (o, p) in orders.iter().zip(opened.iter()) {
        let now = engine
            .position(&router, vamm.addr().to_string(), o.trader.to_string())
            .unwrap();
        assert_eq!(&now, p, "position of {} changed", o.trader);
    }
    // the engine's positions add up to the vAMM's net position
    let sum = opened.iter().fold(Integer::zero(), |acc, p| acc + p.size);
    assert_eq!(sum, vamm.state(&router).unwrap().total_position_size);

    // close one of them: the strict prefix c1
    let closed_idx = 4;
    assert_eq!(orders[closed_idx].trader, c1);
    let before = usdc.balance::<_, _, Empty>(&router, c1.clone()).unwrap();
    let msg = engine
        .close_position(vamm.addr().to_string(), Uint128::zero())
        .unwrap();
    router.execute(c1.clone(), msg).unwrap();
    assert!(usdc.balance::<_, _, Empty>(&router, c1.clone()).unwrap() > before);

    for (i, (o, p)) in orders.iter().zip(opened.iter()).enumerate() {
        let now = engine.position(&router, vamm.addr().to_string(), o.trader.to_string());
        if i == closed_idx {
            let err = now.unwrap_err().to_string();
            assert!(err.contains("No position found"), "{}", err);
        } else {
            assert_eq!(&now.unwrap(), p, "position of {} changed by c1's close", o.trader);
        }
    }
    let sum = opened
        .iter()
        .enumerate()
        .filter(|(i, _)| *i != closed_idx)
        .fold(Integer::zero(), |acc, (_, p)| acc + p.size);
    assert_eq!(sum, vamm.state(&router).unwrap().total_position_size);
}

#[test]
fn t10_same_trader_on_two_vamms_has_two_positions() {
    let SimpleScenario {
        mut router,
        owner,
        alice,
        engine,
        vamm: vamm1,
        pricefeed,
        insurance_fund,
        ..
    } = SimpleScenario::new();

    let vamm2 = deploy_vamm(
        &mut router,
        &owner,
        &engine.addr(),
        Some(&insurance_fund),
        &pricefeed.addr(),
        &VammParams::like_simple_scenario(),
        "vamm2",
    );
    assert_ne!(vamm1.addr(), vamm2.addr());

    let p1 = open(
        &mut router,
        &engine,
        &vamm1,
        &Order { trader: alice.clone(), side: Side::Buy, margin: 60, leverage: 10 },
    );
    // nothing on vAMM #2 yet
    assert!(engine
        .position(&router, vamm2.addr().to_string(), alice.to_string())
        .is_err());
    let p2 = open(
        &mut router,
        &engine,
        &vamm2,
        &Order { trader: alice.clone(), side: Side::Sell, margin: 30, leverage: 2 },
    );
    assert_eq!(p1.size, Integer::new_positive(37_500_000_000u128));
    assert!(p2.size < Integer::zero());
    assert_ne!(p1.size.value, p2.size.value);

    // each vAMM returns its own position; the second open did not touch the first
    assert_eq!(
        engine
            .position(&router, vamm1.addr().to_string(), alice.to_string())
            .unwrap(),
        p1
    );
    assert_eq!(
        engine
            .position(&router, vamm2.addr().to_string(), alice.to_string())
            .unwrap(),
        p2
    );
    let all = engine.get_all_positions(&router, alice.to_string()).unwrap();
    assert_eq!(all.len(), 2);
    assert!(all.contains(&p1) && all.contains(&p2));
    assert_eq!(vamm1.state(&router).unwrap().total_position_size, p1.size);
    assert_eq!(vamm2.state(&router).unwrap().total_position_size, p2.size);

    // closing on vAMM #1 leaves vAMM #2's position untouched
    let msg = engine
        .close_position(vamm1.addr().to_string(), Uint128::zero())
        .unwrap();
    router.execute(alice.clone(), msg).unwrap();
    let err = engine
        .position(&router, vamm1.addr().to_string(), alice.to_string())
        .unwrap_err()
        .to_string();
    assert!(err.contains("No position found"), "{}", err);
    assert_eq!(
        engine
            .position(&router, vamm2.addr().to_string(), alice.to_string())
            .unwrap(),
        p2
    );
    assert_eq!(vamm1.state(&router).unwrap().total_position_size, Integer::zero());
    assert_eq!(vamm2.state(&router).unwrap().total_position_size, p2.size);
}

/// (e) addresses that differ only in the case of their characters are different accounts: the key must not fold case.
/// (The upper-case account cannot hold cw20 funds - the mock API refuses to validate a non-normalised address - but it can send
/// messages, which is all that is needed: whatever it attempts must not touch the other account's record.)
#[test]
fn t10_addresses_differing_only_in_case_do_not_alias() {
    let SimpleScenario { mut router, alice, engine, vamm, .. } = SimpleScenario::new();
    let upper = Addr::unchecked(alice.as_str().to_uppercase());
    assert_ne!(alice, upper);
    let p_alice = open(&mut router, &engine, &vamm, &Order { trader: alice.clone(), side: Side::Buy, margin: 10, leverage: 3 });
    // the other account has nothing
    let other = engine.position(&router, vamm.addr().to_string(), upper.to_string());
    assert!(other.is_err() || other.unwrap().size == Integer::zero());
    // whatever it attempts must not touch alice's record
    let msg = engine.close_position(vamm.addr().to_string(), Uint128::zero()).unwrap();
    let _ = router.execute(upper.clone(), msg);
    let msg = engine.withdraw_margin(vamm.addr().to_string(), to_decimals(1)).unwrap();
    let _ = router.execute(upper.clone(), msg);
    let still = engine.position(&router, vamm.addr().to_string(), alice.to_string()).unwrap();
    assert_eq!(still, p_alice);
}
