//! R19a (property C19) - REGRESSION test, must pass on the repaired tree.
//!
//! Before the repair `Integer`'s derived equality / sign predicates distinguished `-0` from `+0`:
//! a zero that was computed from a negative operand kept `negative: true`, compared unequal to
//! `Integer::zero()`, ordered below it and reported `is_negative()`.

use cosmwasm_std::Uint128;
use margined_common::integer::Integer;

fn assert_is_plain_zero(label: &str, z: Integer) {
    assert!(z.is_zero(), "{}: not zero: {:?}", label, z);
    assert!(z == Integer::zero(), "{}: != Integer::zero(): {:?}", label, z);
    assert!(Integer::zero() == z, "{}: zero != result: {:?}", label, z);
    assert!(z == Integer::ZERO, "{}: != Integer::ZERO: {:?}", label, z);
    assert!(!(z < Integer::zero()), "{}: orders below zero: {:?}", label, z);
    assert!(!(z > Integer::zero()), "{}: orders above zero: {:?}", label, z);
    assert!(z <= Integer::zero() && z >= Integer::zero(), "{}: {:?}", label, z);
    assert_eq!(
        z.cmp(&Integer::zero()),
        std::cmp::Ordering::Equal,
        "{}: cmp != Equal: {:?}",
        label,
        z
    );
    assert!(!z.is_negative(), "{}: is_negative(): {:?}", label, z);
    assert!(z.is_positive(), "{}: !is_positive(): {:?}", label, z);
    // sign manipulation of zero stays zero
    assert!(z.invert_sign() == Integer::zero(), "{}: -z != 0", label);
    assert!(!z.invert_sign().is_negative(), "{}: -z is_negative()", label);
    assert!(z.abs() == Integer::zero(), "{}: |z| != 0", label);
}

#[test]
fn r19a_zero_results_are_equal_to_zero() {
    let m5 = Integer::new_negative(5u128);
    let p5 = Integer::new_positive(5u128);
    let m1 = Integer::new_negative(1u128);
    let zero = Integer::zero();

    // operators
    assert_is_plain_zero("(-5) + 5", m5 + p5);
    assert_is_plain_zero("5 + (-5)", p5 + m5);
    assert_is_plain_zero("(-5) - (-5)", m5 - m5);
    assert_is_plain_zero("(-5) * 0", m5 * zero);
    assert_is_plain_zero("0 * (-5)", zero * m5);
    assert_is_plain_zero("(-1) / 5", m1 / p5);
    assert_is_plain_zero("0 / (-5)", zero / m5);

    // checked variants
    assert_is_plain_zero("checked (-5) + 5", m5.checked_add(p5).unwrap());
    assert_is_plain_zero("checked (-5) - (-5)", m5.checked_sub(m5).unwrap());
    assert_is_plain_zero("checked (-5) * 0", m5.checked_mul(zero).unwrap());
    assert_is_plain_zero("checked (-1) / 5", m1.checked_div(p5).unwrap());

    // assigning operators
    let mut a = m5;
    a += p5;
    assert_is_plain_zero("(-5) += 5", a);
    let mut b = m5;
    b *= zero;
    assert_is_plain_zero("(-5) *= 0", b);
    let mut c = m1;
    c /= p5;
    assert_is_plain_zero("(-1) /= 5", c);

    // constructors
    assert_is_plain_zero("new_negative(0)", Integer::new_negative(Uint128::zero()));
    assert_is_plain_zero("from(\"-0\")", Integer::from("-0"));

    // the pattern the engine relies on (`funding_payment.is_negative() && !is_zero()` etc.):
    // a zero funding payment from a short position must not select the "negative" branch
    let short_size = Integer::new_negative(187_500_000_000u128);
    let no_premium = Integer::zero();
    let payment = short_size * no_premium / Integer::new_positive(1_000_000_000u128);
    assert_is_plain_zero("short size * 0 premium / decimals", payment);
}
