//! F11a (property C11): `reverse_position_reply` closes the old position with
//! `margin + unrealized pnl` and never looks at the funding that accrued since the position's
//! `last_updated_premium_fraction`; `clear_position` then resets that checkpoint.  A trader who
//! owes funding can therefore shed the debt by reversing instead of closing.

use cosmwasm_std::{Empty, Uint128};
use cw_multi_test::Executor;
use margined_common::integer::Integer;
use margined_perp::margined_engine::{PnlCalcOption, Position, Side};
use margined_utils::scenarios::{to_decimals, SimpleScenario};

const ONE_DAY: u64 = 86_400;

#[derive(Debug, PartialEq, Eq, Clone, Copy)]
enum Exit {
    /// OpenPosition on the opposite side with a notional larger than the position
    Reverse,
    /// plain ClosePosition (control: this path DOES charge the funding)
    Close,
}

#[derive(Debug)]
struct Outcome {
    /// cumulative premium fraction of the vAMM just before the exit
    premium_fraction: Integer,
    /// funding the stored position owes just before the exit (margin - margin_with_funding)
    funding_owed: Uint128,
    /// alice's stored margin / spot pnl just before the exit
    margin_before: Uint128,
    pnl_before: Integer,
    /// cw20 received by alice in the exit transaction
    paid_to_alice: Uint128,
    alice_balance_after: Uint128,
    /// alice's position after the exit (None after a close)
    position_after: Option<Position>,
    /// same position as seen by `PositionWithFundingPayment`
    position_after_with_funding: Option<Position>,
}

fn run(settle_funding: bool, exit: Exit) -> Outcome {
    let SimpleScenario {
        mut router,
        alice,
        bob,
        owner,
        engine,
        vamm,
        usdc,
        pricefeed,
        ..
    } = SimpleScenario::new();

    // alice: long, margin 25, 10x  -> notional 250, size 20     (reserves 1250 / 80)
    let msg = engine
        .open_position(
            vamm.addr().to_string(),
            Side::Buy,
            to_decimals(25),
            to_decimals(10),
            Uint128::zero(),
            vec![],
        )
        .unwrap();
    router.execute(alice.clone(), msg).unwrap();

    // bob: long, margin 350, 1x -> notional 350, size 17.5      (reserves 1600 / 62.5)
    // this gives alice a profit, so that "margin + pnl" is distinguishable from "margin"
    let msg = engine
        .open_position(
            vamm.addr().to_string(),
            Side::Buy,
            to_decimals(350),
            to_decimals(1),
            Uint128::zero(),
            vec![],
        )
        .unwrap();
    router.execute(bob.clone(), msg).unwrap();

    // oracle price 25.1 against a vAMM price (and, a day later, TWAP) of 1600/62.5 = 25.6:
    // premium fraction = +0.5 per unit of base, longs pay
    let msg = pricefeed
        .append_price(
            "ETH".to_string(),
            Uint128::from(25_100_000_000u128),
            router.block_info().time.seconds(),
        )
        .unwrap();
    router.execute(owner.clone(), msg).unwrap();

    router.update_block(|block| {
        block.time = block.time.plus_seconds(ONE_DAY);
        block.height += 1;
    });

    if settle_funding {
        let msg = engine.pay_funding(vamm.addr().to_string()).unwrap();
        router.execute(owner.clone(), msg).unwrap();
    }

    // ---- state just before the exit ------------------------------------------------------------
    let premium_fraction = engine
        .get_latest_cumulative_premium_fraction(&router, vamm.addr().to_string())
        .unwrap();
    let stored = engine
        .position(&router, vamm.addr().to_string(), alice.to_string())
        .unwrap();
    let with_funding = engine
        .get_position_with_funding_payment(&router, vamm.addr().to_string(), alice.to_string())
        .unwrap();
    assert_eq!(stored.size, Integer::new_positive(20_000_000_000u128));
    assert_eq!(stored.margin, to_decimals(25));
    assert_eq!(stored.last_updated_premium_fraction, Integer::zero());
    let funding_owed = stored.margin - with_funding.margin;
    // cross-check with the definition: (latest - checkpoint) * size / decimals
    assert_eq!(
        Integer::new_positive(funding_owed),
        (premium_fraction - stored.last_updated_premium_fraction) * stored.size
            / Integer::new_positive(1_000_000_000u128)
    );
    let pnl_before = engine
        .get_unrealized_pnl(
            &router,
            vamm.addr().to_string(),
            alice.to_string(),
            PnlCalcOption::SpotPrice,
        )
        .unwrap()
        .unrealized_pnl;

    let alice_before = usdc.balance::<_, _, Empty>(&router, alice.clone()).unwrap();

    // ---- the exit ------------------------------------------------------------------------------
    let msg = match exit {
        // sell 600 notional at 10x against a long worth ~387.9: closes it and opens a short
        Exit::Reverse => engine
            .open_position(
                vamm.addr().to_string(),
                Side::Sell,
                to_decimals(60),
                to_decimals(10),
                Uint128::zero(),
                vec![],
            )
            .unwrap(),
        Exit::Close => engine
            .close_position(vamm.addr().to_string(), Uint128::zero())
            .unwrap(),
    };
    router.execute(alice.clone(), msg).unwrap();

    let alice_after = usdc.balance::<_, _, Empty>(&router, alice.clone()).unwrap();
    let position_after = engine
        .position(&router, vamm.addr().to_string(), alice.to_string())
        .ok();
    let position_after_with_funding = engine
        .get_position_with_funding_payment(&router, vamm.addr().to_string(), alice.to_string())
        .ok();

    Outcome {
        premium_fraction,
        funding_owed,
        margin_before: stored.margin,
        pnl_before,
        paid_to_alice: alice_after - alice_before,
        alice_balance_after: alice_after,
        position_after,
        position_after_with_funding,
    }
}

#[test]
fn f11a_reversal_does_not_charge_pending_funding() {
    let owing = run(true, Exit::Reverse); // funding settled: alice owes funding, then reverses
    let clean = run(false, Exit::Reverse); // identical, but no funding was ever settled
    let closing = run(true, Exit::Close); // control: funding settled, alice closes instead
    println!("F11a reversal, funding owed : {:?}", owing);
    println!("F11a reversal, nothing owed : {:?}", clean);
    println!("F11a close,    funding owed : {:?}", closing);

    // just before the reversal the position owes funding in one run and nothing in the other
    assert_eq!(owing.premium_fraction, Integer::new_positive(500_000_000u128)); // +0.5
    assert_eq!(owing.funding_owed, to_decimals(10)); // 0.5 * 20 base
    assert_eq!(clean.premium_fraction, Integer::zero());
    assert_eq!(clean.funding_owed, Uint128::zero());
    // everything else is equal
    assert_eq!(owing.margin_before, clean.margin_before);
    assert_eq!(owing.pnl_before, clean.pnl_before);
    assert!(owing.pnl_before > Integer::zero());

    // DEFECT: the trader is paid exactly the same in both runs, i.e. the 10 owed are not charged.
    // (correct behaviour: owing.paid_to_alice == clean.paid_to_alice - 10, or equivalently the
    //  new position starts with 10 less margin)
    assert_eq!(owing.paid_to_alice, clean.paid_to_alice);
    assert_eq!(owing.alice_balance_after, clean.alice_balance_after);

    // the amount is old margin + pnl - margin of the new short, with no funding term at all
    let new_owing = owing.position_after.as_ref().expect("short after reversal");
    let new_clean = clean.position_after.as_ref().expect("short after reversal");
    assert!(new_owing.size < Integer::zero());
    assert_eq!(new_owing.size, new_clean.size);
    assert_eq!(new_owing.margin, new_clean.margin);
    assert_eq!(new_owing.notional, new_clean.notional);
    assert_eq!(
        Integer::new_positive(owing.paid_to_alice),
        Integer::new_positive(owing.margin_before) + owing.pnl_before
            - Integer::new_positive(new_owing.margin)
    );

    // ... and the debt is gone for good: the new position is check-pointed at the latest premium
    // fraction and owes nothing
    assert_eq!(
        new_owing.last_updated_premium_fraction,
        owing.premium_fraction
    );
    assert_eq!(
        owing.position_after_with_funding.as_ref().unwrap().margin,
        new_owing.margin
    );

    // control: ClosePosition in the same situation does charge it: margin + pnl - funding
    assert_eq!(closing.funding_owed, owing.funding_owed);
    assert_eq!(closing.pnl_before, owing.pnl_before);
    assert!(closing.position_after.is_none());
    assert_eq!(
        Integer::new_positive(closing.paid_to_alice),
        Integer::new_positive(closing.margin_before) + closing.pnl_before
            - Integer::new_positive(closing.funding_owed)
    );
    // so reversing instead of closing is worth exactly the funding owed (the reversal pays out
    // `paid + new margin` in value versus `paid` for the close)
    assert_eq!(
        owing.paid_to_alice + new_owing.margin,
        closing.paid_to_alice + owing.funding_owed
    );
}
