//! T1 guard, the part CBMC cannot do (divider circuits): the shim's assumed contracts of Uint128 checked_div / checked_rem / `/` / `%`
//! and of Timestamp (whole seconds of a nanosecond count) compared with the REAL cosmwasm_std on a boundary grid.
//! A TEST (sampled), not a proof: these contracts stay listed as assumptions.
use cosmwasm_std::{Timestamp, Uint128};

fn grid() -> Vec<u128> {
    let mut g = vec![0u128, 1, 2, 3, 7, 9, 10, 999_999_999, 1_000_000_000, 1_000_000_001, u64::MAX as u128, (u64::MAX as u128) + 1,
                     u128::MAX, u128::MAX - 1, u128::MAX / 2, u128::MAX / 2 + 1, 1 << 127, (1 << 127) - 1, 1 << 64, 10u128.pow(18), 10u128.pow(38)];
    let mut x: u128 = 0x9e3779b97f4a7c15f39cc0605cedc834;
    for _ in 0..40 {
        x = x.wrapping_mul(0x2545f4914f6cdd1d2545f4914f6cdd1d).wrapping_add(0x14057b7ef767814f);
        g.push(x);
        g.push(x >> 64);
        g.push(x >> 100);
    }
    g
}

#[test]
fn t01_uint128_division_matches_the_assumed_contract() {
    for &a in grid().iter() {
        for &b in grid().iter() {
            let (ua, ub) = (Uint128::new(a), Uint128::new(b));
            match ua.checked_div(ub) {
                Ok(r) => assert!(b != 0 && r.u128() == a / b),
                Err(_) => assert!(b == 0),
            }
            match ua.checked_rem(ub) {
                Ok(r) => assert!(b != 0 && r.u128() == a % b),
                Err(_) => assert!(b == 0),
            }
            if b != 0 {
                assert_eq!((ua / ub).u128(), a / b);
                assert_eq!((ua % ub).u128(), a % b);
            }
        }
    }
}

#[test]
fn t01_timestamp_is_whole_seconds_of_nanoseconds() {
    for &n in grid().iter() {
        let n = (n % (u64::MAX as u128 / 2)) as u64;
        let t = Timestamp::from_nanos(n);
        assert_eq!(t.seconds(), n / 1_000_000_000);
        for add in [0u64, 1, 59, 60, 3600, 86_400, 604_800, 4_000_000_000] {
            assert_eq!(t.plus_seconds(add).seconds(), t.seconds() + add);
        }
        let s = n / 1_000_000_000;
        assert_eq!(Timestamp::from_seconds(s).seconds(), s);
    }
}
