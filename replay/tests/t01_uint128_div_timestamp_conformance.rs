//! T1 guard, the part CBMC cannot do (divider circuits): the shim's assumed contracts of Uint128 checked_div / checked_rem / `/` / `%`
//! and of Timestamp (whole seconds of a nanosecond count) compared with the REAL cosmwasm_std on a boundary grid.
//! A TEST (sampled), not a proof: these contracts stay listed as assumptions.
use cosmwasm_std::{Timestamp, Uint128};

fn grid() -> Vec<u128> {
    let mut g = vec![0u128, 1, 2, 3, 7, 9, 10, 999_999_999, 1_000_000_000, 1_000_000_001, u64::MAX as u128, (u64::MAX as u128) + 1,
                     u128::MAX, u128::MAX - 1, u128::MAX / 2, u128::MAX / 2 + 1, 1 << 127, (1 << 127) - 1, 1 << 64, 10u128.pow(18), 10u128.pow(38)];
    let mut x: u128 = 0x9e3779b97f4a7c15f39cc0605cedc834;
    for _ in 0..40 {
        x = x.wrapping_mul(0x2545f4914f6cdd1d2545f4914f6cdd1d).wrapping_add(0x14057b7ef767814f);
        g.push(x);
        g.push(x >> 64);
        g.push(x >> 100);
    }
    g
}

#[test]
fn t01_uint128_division_matches_the_assumed_contract() {
    for &a in grid().iter() {
        for &b in grid().iter() {
            let (ua, ub) = (Uint128::new(a), Uint128::new(b));
            match ua.checked_div(ub) {
                Ok(r) => assert!(b != 0 && r.u128() == a / b),
                Err(_) => assert!(b == 0),
            }
            match ua.checked_rem(ub) {
                Ok(r) => assert!(b != 0 && r.u128() == a % b),
                Err(_) => assert!(b == 0),
            }
            if b != 0 {
                assert_eq!((ua / ub).u128(), a / b);
                assert_eq!((ua % ub).u128(), a % b);
            }
        }
    }
}

#[test]
fn t01_timestamp_is_whole_seconds_of_nanoseconds() {
    for &n in grid().iter() {
        let n = (n % (u64::MAX as u128 / 2)) as u64;
        let t = Timestamp::from_nanos(n);
        assert_eq!(t.seconds(), n / 1_000_000_000);
        for add in [0u64, 1, 59, 60, 3600, 86_400, 604_800, 4_000_000_000] {
            assert_eq!(t.plus_seconds(add).seconds(), t.seconds() + add);
        }
        let s = n / 1_000_000_000;
        assert_eq!(Timestamp::from_seconds(s).seconds(), s);
    }
}

/// Conformance TEST for the nanosecond model of shim/base.rs (secs, sub): nanos == secs*10^9 + sub with sub < 10^9, `plus_seconds` /
/// `minus_seconds` keep the sub-second part, whole Timestamps compare by their nanoseconds, `minus_seconds` aborts exactly when secs < s.
#[test]
fn t01_timestamp_nanosecond_model() {
    let ns: Vec<u64> = vec![0, 1, 999_999_999, 1_000_000_000, 1_000_000_001, 1_571_797_419_879_305_533, 1_571_797_420_000_000_000, u64::MAX / 4];
    for &a in ns.iter() {
        let t = Timestamp::from_nanos(a);
        let (secs, sub) = (a / 1_000_000_000, a % 1_000_000_000);
        assert_eq!(t.seconds(), secs);
        assert_eq!(t.subsec_nanos(), sub);
        assert_eq!(t.nanos(), secs * 1_000_000_000 + sub);
        for s in [0u64, 1, 59, 900, 3600] {
            let p = t.plus_seconds(s);
            assert_eq!((p.seconds(), p.subsec_nanos()), (secs + s, sub));
            let r = std::panic::catch_unwind(|| t.minus_seconds(s));
            if secs >= s {
                let m = r.expect("minus_seconds must not abort when secs >= s");
                assert_eq!((m.seconds(), m.subsec_nanos()), (secs - s, sub));
            } else {
                assert!(r.is_err(), "minus_seconds must abort when secs < s");
            }
            assert_eq!(t.plus_nanos(s).nanos(), a + s);
            if a >= s { assert_eq!(t.minus_nanos(s).nanos(), a - s); }
        }
        for &b in ns.iter() {
            let u = Timestamp::from_nanos(b);
            assert_eq!(t.partial_cmp(&u), a.partial_cmp(&b));
            assert_eq!(t == u, a == b);
            assert_eq!(t <= u, a <= b);
        }
        assert_eq!(Timestamp::from_seconds(secs).nanos(), secs * 1_000_000_000);
    }
    assert_eq!(Timestamp::default().nanos(), 0);
}
