//! F07c (property C07): the vault can hold less than (remaining margin + liquidator fee) of a mildly under-margined position
//! when the loss of another, insolvent and not yet liquidated, position has already been paid out as a third trader's profit.
//! `liquidate_reply` then queues `remaining margin -> insurance fund` and `fee -> liquidator`, computing the liquidator's shortfall
//! from the vault balance BEFORE the first of the two transfers, so it asks the insurance fund for too little and the second transfer
//! cannot be covered: the liquidation of an under-margined position reverts although the vAMM is open, inside its band and spread
//! limit, and the insurance fund holds thousands of tokens.
use cosmwasm_std::{Addr, Empty, Uint128};
use cw_multi_test::{App, Executor};
use margined_common::integer::Integer;
use margined_perp::margined_engine::Side;
use margined_utils::scenarios::SimpleScenario;
use verif_replay::{error_chain, next_block};

const D: u128 = 1_000_000_000;

#[test]
fn f07c_liquidation_fails_when_vault_holds_less_than_remaining_margin_plus_fee() {
    let SimpleScenario { mut router, alice, bob, david, carol, engine, vamm, usdc, insurance_fund, .. } = SimpleScenario::new();
    let open = |router: &mut App, who: &Addr, side: Side, margin: u128, lev: u128| {
        let msg = engine.open_position(vamm.addr().to_string(), side, Uint128::new(margin), Uint128::new(lev), Uint128::zero(), vec![]).unwrap();
        router.execute(who.clone(), msg).map(|_| ()).map_err(|e| error_chain(&e))
    };
    // alice: early long, 9 x 5
    open(&mut router, &alice, Side::Buy, 9 * D, 5 * D).unwrap();
    next_block(&mut router, 15);
    // bob: long 1 x 10, david: long 0.5 x 18, both after alice pushed the price up
    open(&mut router, &bob, Side::Buy, D, 10 * D).unwrap();
    open(&mut router, &david, Side::Buy, D / 2, 18 * D).unwrap();
    next_block(&mut router, 15);
    // alice takes her profit: it is paid out of bob's and david's margins (and a little from the insurance fund)
    let msg = engine.close_position(vamm.addr().to_string(), Uint128::zero()).unwrap();
    router.execute(alice.clone(), msg).unwrap();
    // let the 15-minute TWAP catch up with spot
    for _ in 0..70 {
        next_block(&mut router, 15);
    }
    let vault = usdc.balance::<_, _, Empty>(&router, engine.addr().clone()).unwrap();
    let fund = usdc.balance::<_, _, Empty>(&router, insurance_fund.addr().clone()).unwrap();
    let ratio_bob = engine.get_margin_ratio(&router, vamm.addr().to_string(), bob.to_string()).unwrap();
    let ratio_david = engine.get_margin_ratio(&router, vamm.addr().to_string(), david.to_string()).unwrap();
    println!("F07c vault {} fund {} ratio bob {} david {}", vault, fund, ratio_bob, ratio_david);

    // the hypotheses of C07 hold for bob: ratio 3.25 % is below the 5 % maintenance ratio but ABOVE half the 5 % liquidation fee, so a
    // positive margin remains after the liquidator's fee; the vAMM is open; the insurance fund is rich
    assert!(ratio_bob < Integer::new_positive(50_000_000u128) && ratio_bob > Integer::new_positive(25_000_000u128));
    assert!(ratio_david < Integer::zero()); // david is insolvent and not yet liquidated
    assert!(vamm.state(&router).unwrap().open);
    assert!(fund > Uint128::new(4_000 * D));
    // the vault holds less than bob's remaining margin + fee (here: nothing at all)
    assert!(vault < Uint128::new(D / 10));

    // DEFECT: carol's Liquidate of bob reverts - the fee transfer cannot be covered because the shortfall requested from the insurance
    // fund was computed before the remaining margin was sent away
    let msg = engine.liquidate(vamm.addr().to_string(), bob.to_string(), Uint128::zero()).unwrap();
    let res = router.execute(carol.clone(), msg).map(|_| ()).map_err(|e| error_chain(&e));
    println!("F07c liquidate bob: {:?}", res);
    let err = res.unwrap_err();
    assert!(err.contains("transfer failure"), "{}", err);
    assert!(engine.position(&router, vamm.addr().to_string(), bob.to_string()).is_ok());

    // control: the insolvent david (no remaining margin, so no transfer to the fund is queued) liquidates fine from the same state
    let msg = engine.liquidate(vamm.addr().to_string(), david.to_string(), Uint128::zero()).unwrap();
    router.execute(carol.clone(), msg).unwrap();
}
