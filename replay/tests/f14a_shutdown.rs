//! F14a (property C14): `ShutdownVamms` of the insurance fund is all-or-nothing and the vAMM's
//! `SetOpen` rejects a no-op, so ONE registered vAMM that is already closed makes the whole
//! emergency shutdown revert and every other vAMM stays open.

use cosmwasm_std::Addr;
use cw_multi_test::Executor;
use margined_utils::contracts::helpers::VammController;
use margined_utils::scenarios::SimpleScenario;
use verif_replay::{deploy_vamm, error_chain, VammParams};

/// Runs the witness once; `close_first` selects which of the two registered vAMMs is the one
/// that its owner closed beforehand.  Returns the error text of the failed shutdown.
fn shutdown_with_one_closed_vamm(close_first: bool) -> String {
    let SimpleScenario {
        mut router,
        owner,
        vamm: vamm_a,
        engine,
        pricefeed,
        insurance_fund,
        ..
    } = SimpleScenario::new();

    // second vAMM, same owner, registered in the same insurance fund, open
    let vamm_b = deploy_vamm(
        &mut router,
        &owner,
        &engine.addr(),
        Some(&insurance_fund),
        &pricefeed.addr(),
        &VammParams::like_simple_scenario(),
        "vamm_b",
    );

    // both are registered and open
    let registered: Vec<Addr> = insurance_fund
        .all_vamms(None, &router)
        .unwrap()
        .vamm_list;
    assert_eq!(registered.len(), 2);
    assert!(registered.contains(&vamm_a.addr()));
    assert!(registered.contains(&vamm_b.addr()));
    assert!(vamm_a.state(&router).unwrap().open);
    assert!(vamm_b.state(&router).unwrap().open);

    let (closed, other): (VammController, VammController) = if close_first {
        (vamm_a, vamm_b)
    } else {
        (vamm_b, vamm_a)
    };

    // vAMM #1 is closed by its owner (a perfectly legal, independent action)
    let msg = closed.set_open(false).unwrap();
    router.execute(owner.clone(), msg).unwrap();
    assert!(!closed.state(&router).unwrap().open);
    assert!(other.state(&router).unwrap().open);

    // the insurance-fund owner now triggers the emergency shutdown of all vAMMs
    let msg = insurance_fund.shutdown_vamms().unwrap();
    let err = router.execute(owner.clone(), msg).unwrap_err();
    let text = error_chain(&err);

    // DEFECT: the call fails as a whole ...
    // (correct behaviour: the shutdown succeeds, skipping / tolerating vAMMs that are already
    //  closed, and afterwards NO registered vAMM is open)
    //     The failing sub-message is the fund's `SetOpen { open: false }` to the vAMM that is
    //     already closed; that vAMM answers its no-op rejection "unauthorized".
    assert!(
        text.contains("Generic error: unauthorized"),
        "unexpected shutdown error: {}",
        text
    );
    assert!(
        text.contains(&format!(
            "Execute {{ contract_addr: \"{}\", msg: {{\"set_open\":{{\"open\":false}}}}",
            closed.addr()
        )),
        "the failing sub-message is not the SetOpen to the closed vAMM: {}",
        text
    );

    // ... and the vAMM that was still open is STILL OPEN after the "shutdown".
    assert!(
        other.state(&router).unwrap().open,
        "the open vAMM was closed although the shutdown reverted"
    );
    assert!(!closed.state(&router).unwrap().open);

    // the open vAMM really still trades: the insurance fund reports it as switched on
    assert!(
        insurance_fund
            .vamm_status(other.addr().to_string(), &router)
            .unwrap()
            .vamm_status
    );

    text
}

#[test]
fn f14a_shutdown_reverts_when_a_registered_vamm_is_already_closed() {
    // the order of the vAMMs in the fund's list does not matter: either one being closed
    // blocks the shutdown of the other
    let e1 = shutdown_with_one_closed_vamm(true);
    let e2 = shutdown_with_one_closed_vamm(false);
    println!("F14a shutdown error (first registered vAMM closed):  {}", e1);
    println!("F14a shutdown error (second registered vAMM closed): {}", e2);
}
