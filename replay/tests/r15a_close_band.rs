//! R15a (property C15) - REGRESSION test, must pass on the repaired tree.
//!
//! `close_position` asks the vAMM whether closing the whole position would leave the block's
//! fluctuation band, and closes only `partial_liquidation_ratio` of it if so.  Before the repair
//! the question was always asked for `Direction::RemoveFromAmm` (the trade that closes a SHORT);
//! for a LONG that is the wrong side of the band: in a block in which the price already fell
//! 4.8 % a small long's close looked harmless (price "moving up") and the whole position was
//! sold through the lower limit.

use cosmwasm_std::Uint128;
use cw_multi_test::Executor;
use margined_common::integer::Integer;
use margined_perp::margined_engine::Side;
use margined_perp::margined_vamm::Direction;
use margined_utils::scenarios::SimpleScenario;
use verif_replay::next_block;

#[test]
fn r15a_long_close_respects_band() {
    let SimpleScenario {
        mut router,
        alice,
        bob,
        owner,
        engine,
        vamm,
        ..
    } = SimpleScenario::new();

    let msg = engine
        .set_partial_liquidation_ratio(Uint128::new(250_000_000)) // 0.25
        .unwrap();
    router.execute(owner.clone(), msg).unwrap();

    // block A: alice opens a small long: margin 6, 1x -> notional 6        (reserves 1006 / 99.40)
    let msg = engine
        .open_position(
            vamm.addr().to_string(),
            Side::Buy,
            Uint128::new(6_000_000_000),
            Uint128::new(1_000_000_000),
            Uint128::zero(),
            vec![],
        )
        .unwrap();
    router.execute(alice.clone(), msg).unwrap();
    let opened = engine
        .position(&router, vamm.addr().to_string(), alice.to_string())
        .unwrap();
    assert_eq!(opened.direction, Direction::AddToAmm);
    assert!(opened.size > Integer::zero());

    // 5 % fluctuation limit from now on
    let msg = vamm
        .set_fluctuation_limit_ratio(Uint128::new(50_000_000))
        .unwrap();
    router.execute(owner.clone(), msg).unwrap();

    // block B: reference price for the band is 1006^2 / 100000 = 10.12036, lower limit 9.614342
    next_block(&mut router, 15);
    let reference_price = vamm.spot_price(&router).unwrap();
    assert!(reference_price.u128().abs_diff(10_120_360_000) <= 2);

    // bob shorts 24.5 in block B: reserve 981.5, price 9.6334 = -4.81 %, still inside the band
    let msg = engine
        .open_position(
            vamm.addr().to_string(),
            Side::Sell,
            Uint128::new(24_500_000_000),
            Uint128::new(1_000_000_000),
            Uint128::zero(),
            vec![],
        )
        .unwrap();
    router.execute(bob.clone(), msg).unwrap();
    let price_after_bob = vamm.spot_price(&router).unwrap();
    let drop_ppm = (reference_price - price_after_bob).u128() * 1_000_000 / reference_price.u128();
    println!(
        "R15a: reference {} price after bob {} ({} ppm down)",
        reference_price, price_after_bob, drop_ppm
    );
    assert!((47_000..50_000).contains(&drop_ppm), "{}", drop_ppm);

    // selling alice's whole 0.596 base would take the price to ~9.52 = -5.9 %: outside the band
    // (the pre-repair question "what if 0.596 base were BOUGHT" gives ~9.75 = -3.7 %: inside)

    // alice closes in the same block B
    let msg = engine
        .close_position(vamm.addr().to_string(), Uint128::zero())
        .unwrap();
    router.execute(alice.clone(), msg).unwrap();

    // the position is still there, reduced by the partial ratio (25 %), not closed
    let remaining = engine
        .position(&router, vamm.addr().to_string(), alice.to_string())
        .expect("the long was closed completely: the band was ignored");
    let expected = opened.size.value.u128() * 3 / 4;
    let got = remaining.size.value.u128();
    println!(
        "R15a: size before {} after {} (75 % = {}), price after close {}",
        opened.size,
        remaining.size,
        expected,
        vamm.spot_price(&router).unwrap()
    );
    assert!(remaining.size > Integer::zero());
    assert!(
        got.abs_diff(expected) <= 2,
        "remaining size {} is not 75 % of {}",
        got,
        opened.size
    );
    assert!(remaining.notional < opened.notional);
}
