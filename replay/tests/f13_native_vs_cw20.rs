//! F13a / F13b (property C13): the native-collateral code paths do not move the same value as
//! the cw20 ones.
//!
//! * cw20: every amount the trader owes (margin, toll, spread) is pulled from the trader's
//!   wallet with `TransferFrom`.
//! * native: `execute_transfer_from` degenerates to a `BankMsg::Send` FROM THE ENGINE, so
//!   whatever the trader owes has to be attached to the message and is checked against the
//!   `SentFunds.required` counter -- but only on the open / reverse paths.

use cosmwasm_std::{Coin, Empty, Uint128};
use cw_multi_test::Executor;
use margined_common::integer::Integer;
use margined_perp::margined_engine::{PnlCalcOption, Side};
use margined_utils::scenarios::{NativeTokenScenario, SimpleScenario};
use verif_replay::{error_chain, next_block};

const DENOM: &str = "uwasm";

/// one whole token in the native deployment (6 decimals) / in the cw20 deployment (9 decimals)
const N: u128 = 1_000_000;
const C: u128 = 1_000_000_000;

fn native_balance(router: &cw_multi_test::App, who: &cosmwasm_std::Addr) -> u128 {
    router.wrap().query_balance(who, DENOM).unwrap().amount.u128()
}

// -------------------------------------------------------------------------------------------------
// F13a
// -------------------------------------------------------------------------------------------------

#[test]
fn f13a_native_close_fees_are_paid_by_the_vault() {
    // ===== native deployment: toll 5 %, spread 5 % ==============================================
    let NativeTokenScenario {
        mut router,
        owner,
        alice,
        bob,
        engine,
        vamm,
        insurance_fund,
        fee_pool,
        ..
    } = NativeTokenScenario::new();

    let msg = vamm.set_toll_ratio(Uint128::new(50_000)).unwrap();
    router.execute(owner.clone(), msg).unwrap();
    let msg = vamm.set_spread_ratio(Uint128::new(50_000)).unwrap();
    router.execute(owner.clone(), msg).unwrap();

    // bob: short, margin 100, 2x -> notional 200; attaches margin 100 + fees 10 % of 200 = 20.
    // His 100 of collateral is what will be sitting in the vault besides alice's.
    let msg = engine
        .open_position(
            vamm.addr().to_string(),
            Side::Sell,
            Uint128::new(100 * N),
            Uint128::new(2 * N),
            Uint128::zero(),
            vec![Coin::new(120 * N, DENOM)],
        )
        .unwrap();
    router.execute(bob.clone(), msg).unwrap();
    next_block(&mut router, 15);

    // alice: long, margin 60, 10x -> notional 600; attaches margin 60 + fees 10 % of 600 = 60
    let msg = engine
        .open_position(
            vamm.addr().to_string(),
            Side::Buy,
            Uint128::new(60 * N),
            Uint128::new(10 * N),
            Uint128::zero(),
            vec![Coin::new(120 * N, DENOM)],
        )
        .unwrap();
    router.execute(alice.clone(), msg).unwrap();
    next_block(&mut router, 15);

    let position = engine
        .position(&router, vamm.addr().to_string(), alice.to_string())
        .unwrap();
    assert_eq!(position.margin, Uint128::new(60 * N));
    assert_eq!(position.notional, Uint128::new(600 * N));
    let bob_margin = engine
        .position(&router, vamm.addr().to_string(), bob.to_string())
        .unwrap()
        .margin;
    assert_eq!(bob_margin, Uint128::new(100 * N));

    // the vault holds exactly the two margins, the fees of the two opens went out already
    assert_eq!(native_balance(&router, &engine.addr()), 160 * N);

    let pnl = engine
        .get_unrealized_pnl(
            &router,
            vamm.addr().to_string(),
            alice.to_string(),
            PnlCalcOption::SpotPrice,
        )
        .unwrap()
        .unrealized_pnl;
    // closing right after opening: no pnl apart from a few units of rounding dust
    assert!(pnl.value <= Uint128::new(100), "pnl {}", pnl);
    let payout = (Integer::new_positive(position.margin) + pnl).value.u128();

    let alice_before = native_balance(&router, &alice);
    let engine_before = native_balance(&router, &engine.addr());
    let fund_before = native_balance(&router, &insurance_fund.addr());
    let pool_before = native_balance(&router, &fee_pool.addr());

    // alice closes and attaches NOTHING
    let msg = engine
        .close_position(vamm.addr().to_string(), Uint128::zero())
        .unwrap();
    let res = router.execute(alice.clone(), msg).unwrap();
    let attr = |key: &str| -> String {
        res.events
            .iter()
            .flat_map(|e| e.attributes.iter())
            .find(|a| a.key == key)
            .map(|a| a.value.clone())
            .unwrap()
    };
    assert_eq!(attr("spread_fee"), (30 * N).to_string());
    assert_eq!(attr("toll_fee"), (30 * N).to_string());

    let alice_after = native_balance(&router, &alice);
    let engine_after = native_balance(&router, &engine.addr());
    let fund_after = native_balance(&router, &insurance_fund.addr());
    let pool_after = native_balance(&router, &fee_pool.addr());
    println!(
        "F13a native: alice {:+}, vault {:+}, insurance fund {:+}, fee pool {:+} (payout {}, vault left {}, bob's margin {})",
        alice_after as i128 - alice_before as i128,
        engine_after as i128 - engine_before as i128,
        fund_after as i128 - fund_before as i128,
        pool_after as i128 - pool_before as i128,
        payout,
        engine_after,
        bob_margin
    );

    // the closing fees (5 % + 5 % of the 600 notional) arrive at the fund and the pool ...
    assert_eq!(fund_after - fund_before, 30 * N);
    assert_eq!(pool_after - pool_before, 30 * N);
    // DEFECT: ... but alice is not debited for them: she receives her full margin + pnl
    // (correct behaviour, as in the cw20 deployment below: alice ends up with
    //  margin + pnl - 60, e.g. by netting the fees against the payout or requiring them as funds)
    assert_eq!(alice_after - alice_before, payout);
    // ... because the vault paid them: it lost payout + fees
    assert_eq!(engine_before - engine_after, payout + 60 * N);
    // alice has no position any more, bob's is untouched and still claims 100 of margin, but the
    // vault that backs it now holds only ~40: the 60 of fees were taken from bob's collateral
    assert!(engine
        .position(&router, vamm.addr().to_string(), alice.to_string())
        .is_err());
    assert_eq!(
        engine
            .position(&router, vamm.addr().to_string(), bob.to_string())
            .unwrap()
            .margin,
        bob_margin
    );
    assert!(engine_after < bob_margin.u128());
    assert_eq!(engine_after, 160 * N - payout - 60 * N);

    // ===== cw20 deployment, same market, same ratios, same trades ===============================
    let SimpleScenario {
        mut router,
        owner,
        alice,
        bob,
        engine,
        vamm,
        usdc,
        insurance_fund,
        fee_pool,
        ..
    } = SimpleScenario::new();

    let msg = vamm.set_toll_ratio(Uint128::new(50_000_000)).unwrap();
    router.execute(owner.clone(), msg).unwrap();
    let msg = vamm.set_spread_ratio(Uint128::new(50_000_000)).unwrap();
    router.execute(owner.clone(), msg).unwrap();

    let msg = engine
        .open_position(
            vamm.addr().to_string(),
            Side::Sell,
            Uint128::new(100 * C),
            Uint128::new(2 * C),
            Uint128::zero(),
            vec![],
        )
        .unwrap();
    router.execute(bob.clone(), msg).unwrap();
    next_block(&mut router, 15);
    let msg = engine
        .open_position(
            vamm.addr().to_string(),
            Side::Buy,
            Uint128::new(60 * C),
            Uint128::new(10 * C),
            Uint128::zero(),
            vec![],
        )
        .unwrap();
    router.execute(alice.clone(), msg).unwrap();
    next_block(&mut router, 15);

    let bal = |router: &cw_multi_test::App, who: &cosmwasm_std::Addr| -> u128 {
        usdc.balance::<_, _, Empty>(router, who.clone()).unwrap().u128()
    };
    assert_eq!(bal(&router, &engine.addr()), 160 * C);
    let position = engine
        .position(&router, vamm.addr().to_string(), alice.to_string())
        .unwrap();
    let pnl = engine
        .get_unrealized_pnl(
            &router,
            vamm.addr().to_string(),
            alice.to_string(),
            PnlCalcOption::SpotPrice,
        )
        .unwrap()
        .unrealized_pnl;
    assert!(pnl.value <= Uint128::new(100), "pnl {}", pnl);
    let payout = (Integer::new_positive(position.margin) + pnl).value.u128();

    let alice_before = bal(&router, &alice);
    let engine_before = bal(&router, &engine.addr());
    let fund_before = bal(&router, &insurance_fund.addr());
    let pool_before = bal(&router, &fee_pool.addr());

    let msg = engine
        .close_position(vamm.addr().to_string(), Uint128::zero())
        .unwrap();
    router.execute(alice.clone(), msg).unwrap();

    let alice_after = bal(&router, &alice);
    let engine_after = bal(&router, &engine.addr());
    println!(
        "F13a cw20:   alice {:+}, vault {:+}, insurance fund {:+}, fee pool {:+}",
        alice_after as i128 - alice_before as i128,
        engine_after as i128 - engine_before as i128,
        bal(&router, &insurance_fund.addr()) as i128 - fund_before as i128,
        bal(&router, &fee_pool.addr()) as i128 - pool_before as i128,
    );
    assert_eq!(bal(&router, &insurance_fund.addr()) - fund_before, 30 * C);
    assert_eq!(bal(&router, &fee_pool.addr()) - pool_before, 30 * C);
    // here the trader pays the fees (TransferFrom alice) ...
    assert_eq!(alice_after + 60 * C - alice_before, payout);
    // ... the vault only pays out margin + pnl and still backs bob's margin in full
    assert_eq!(engine_before - engine_after, payout);
    assert!(engine_after >= 100 * C);
}

// -------------------------------------------------------------------------------------------------
// F13b
// -------------------------------------------------------------------------------------------------

#[test]
fn f13b_native_reversal_requires_different_funds_than_cw20_pulls() {
    // Common script (amounts in whole tokens), toll 1 %, spread 1 %, market 1000 / 100:
    //   1. alice: long, margin 25, 10x -> notional 250, size 20 (exact)        fees 5
    //   2. alice: SELL margin_amount 225 at 2x -> notional 450:
    //        closes the long (250 back, pnl 0), opens a short of 200 notional, size 25 (exact),
    //        whose margin is 200 / 2 = 100.                                     fees 9
    //   The trader's old equity (25) is credited against the new margin, so the reversal
    //   should cost 100 - 25 + 9 = 84.

    // ===== cw20 ==================================================================================
    let SimpleScenario {
        mut router,
        owner,
        alice,
        engine,
        vamm,
        usdc,
        ..
    } = SimpleScenario::new();
    let msg = vamm.set_toll_ratio(Uint128::new(10_000_000)).unwrap();
    router.execute(owner.clone(), msg).unwrap();
    let msg = vamm.set_spread_ratio(Uint128::new(10_000_000)).unwrap();
    router.execute(owner.clone(), msg).unwrap();

    let msg = engine
        .open_position(
            vamm.addr().to_string(),
            Side::Buy,
            Uint128::new(25 * C),
            Uint128::new(10 * C),
            Uint128::zero(),
            vec![],
        )
        .unwrap();
    router.execute(alice.clone(), msg).unwrap();
    next_block(&mut router, 15);

    let before = usdc.balance::<_, _, Empty>(&router, alice.clone()).unwrap();
    let msg = engine
        .open_position(
            vamm.addr().to_string(),
            Side::Sell,
            Uint128::new(225 * C),
            Uint128::new(2 * C),
            Uint128::zero(),
            vec![],
        )
        .unwrap();
    router.execute(alice.clone(), msg).unwrap();
    let after = usdc.balance::<_, _, Empty>(&router, alice.clone()).unwrap();
    let cw20_pulled = (before - after).u128();
    let cw20_position = engine
        .position(&router, vamm.addr().to_string(), alice.to_string())
        .unwrap();
    let cw20_vault = usdc
        .balance::<_, _, Empty>(&router, engine.addr())
        .unwrap()
        .u128();
    assert_eq!(cw20_pulled, 84 * C);
    assert_eq!(cw20_position.size, Integer::new_negative(25 * C));
    assert_eq!(cw20_position.margin, Uint128::new(100 * C));
    assert_eq!(cw20_position.notional, Uint128::new(200 * C));
    assert_eq!(cw20_vault, 100 * C); // vault == the one position's margin

    // ===== native ================================================================================
    let NativeTokenScenario {
        mut router,
        owner,
        alice,
        engine,
        vamm,
        ..
    } = NativeTokenScenario::new();
    let msg = vamm.set_toll_ratio(Uint128::new(10_000)).unwrap();
    router.execute(owner.clone(), msg).unwrap();
    let msg = vamm.set_spread_ratio(Uint128::new(10_000)).unwrap();
    router.execute(owner.clone(), msg).unwrap();

    let msg = engine
        .open_position(
            vamm.addr().to_string(),
            Side::Buy,
            Uint128::new(25 * N),
            Uint128::new(10 * N),
            Uint128::zero(),
            vec![Coin::new(30 * N, DENOM)], // margin 25 + fees 5
        )
        .unwrap();
    router.execute(alice.clone(), msg).unwrap();
    next_block(&mut router, 15);
    assert_eq!(native_balance(&router, &engine.addr()), 25 * N);

    let reversal = |funds: u128| {
        engine
            .open_position(
                vamm.addr().to_string(),
                Side::Sell,
                Uint128::new(225 * N),
                Uint128::new(2 * N),
                Uint128::zero(),
                if funds == 0 {
                    vec![]
                } else {
                    vec![Coin::new(funds, DENOM)]
                },
            )
            .unwrap()
    };

    // DEFECT (1): the amount the cw20 deployment pulls for this very reversal is rejected
    // (correct behaviour: both deployments charge the trader the same 84)
    let cw20_equivalent = cw20_pulled / C * N;
    assert_eq!(cw20_equivalent, 84 * N);
    let err = router
        .execute(alice.clone(), reversal(cw20_equivalent))
        .unwrap_err();
    let text = error_chain(&err);
    println!("F13b native reversal with {} attached: {}", cw20_equivalent, text.replace('\n', " "));
    assert!(
        text.contains("Generic error: sent funds are insufficient"),
        "{}",
        text
    );

    // find the amount the native deployment does accept: failed attempts roll back, so simply
    // try every whole token amount upwards (anything but the exact `required` is rejected as
    // "insufficient" or "excessive")
    let before = native_balance(&router, &alice);
    let mut accepted = None;
    for tokens in 0..=200u128 {
        match router.execute(alice.clone(), reversal(tokens * N)) {
            Ok(_) => {
                accepted = Some(tokens * N);
                break;
            }
            Err(e) => {
                let text = error_chain(&e);
                assert!(
                    text.contains("sent funds are insufficient"),
                    "attempt with {} tokens: {}",
                    tokens,
                    text
                );
            }
        }
    }
    let accepted = accepted.expect("no attached amount up to 200 tokens is accepted");
    let after = native_balance(&router, &alice);
    let native_position = engine
        .position(&router, vamm.addr().to_string(), alice.to_string())
        .unwrap();
    let native_vault = native_balance(&router, &engine.addr());
    println!(
        "F13b: cw20 pulls {} tokens, native requires {} tokens; both end with margin {} / {}; vault cw20 {} native {}",
        cw20_pulled / C,
        accepted / N,
        cw20_position.margin.u128() / C,
        native_position.margin.u128() / N,
        cw20_vault / C,
        native_vault / N
    );

    // DEFECT (2): it is the FULL new margin plus the fees, 100 + 9 = 109: the old position's
    // equity (25) is not netted.  Nothing is paid back either.
    assert_eq!(accepted, 109 * N);
    assert_eq!(before - after, 109 * N);
    assert_eq!(accepted - cw20_equivalent, 25 * N);

    // both deployments end with the same position ...
    assert_eq!(native_position.size, Integer::new_negative(25 * N));
    assert_eq!(native_position.margin, Uint128::new(100 * N));
    assert_eq!(native_position.notional, Uint128::new(200 * N));
    // ... but the native vault keeps the old margin on top of the new one: 25 tokens that no
    // position accounts for (cw20: vault == margin == 100)
    assert_eq!(native_vault, 125 * N);
}
