//! F07d (property C07): the vAMM parses the price feed's `GetPrice` answer as a bare `Uint128`
//! (which is what contracts/mocks/mock_pricefeed answers), but the repository's REAL feed
//! (contracts/margined_pricefeed) answers a `PriceData { round_id, price, timestamp }` struct.
//! Behind the real feed every vAMM query that needs the oracle price fails to deserialize, and
//! with it `IsOverSpreadLimit`, hence the engine's `Liquidate`.

use cosmwasm_std::{
    to_binary, Addr, Empty, QuerierWrapper, QueryRequest, Timestamp, Uint128, WasmQuery,
};
use cw_multi_test::{App, AppBuilder, Executor};
use margined_perp::margined_pricefeed::QueryMsg as PricefeedQueryMsg;
use margined_perp::margined_vamm::QueryMsg as VammQueryMsg;
use verif_replay::{deploy_mock_pricefeed, deploy_real_pricefeed, deploy_vamm, VammParams};

/// Mirror of `margined_pricefeed::state::PriceData` (that module is private): the shape of the
/// real feed's `GetPrice` / `GetPreviousPrice` answers.
#[derive(serde::Deserialize, Debug)]
#[serde(deny_unknown_fields)]
struct PriceData {
    round_id: Uint128,
    price: Uint128,
    timestamp: Timestamp,
}

fn vamm_query<T: serde::de::DeserializeOwned>(
    router: &App,
    vamm: &Addr,
    msg: &VammQueryMsg,
) -> cosmwasm_std::StdResult<T> {
    QuerierWrapper::<Empty>::new(router).query(&QueryRequest::Wasm(WasmQuery::Smart {
        contract_addr: vamm.to_string(),
        msg: to_binary(msg).unwrap(),
    }))
}

#[test]
fn f07d_real_pricefeed_answer_cannot_be_parsed_by_vamm() {
    let mut router: App = AppBuilder::new().build(|_router, _, _storage| {});
    let owner = Addr::unchecked("owner");
    let engine = Addr::unchecked("engine"); // only the swap entry points need a real engine

    let params = VammParams::like_simple_scenario();
    let price = Uint128::new(10_000_000_000); // 10.0, equal to the vAMM's spot price 1000/100
    let timestamp = router.block_info().time.seconds();

    // ---- the repository's real price feed, and a vAMM pointing at it -------------------------
    let real_feed = deploy_real_pricefeed(&mut router, &owner);
    let vamm = deploy_vamm(
        &mut router,
        &owner,
        &engine,
        None,
        &real_feed.addr(),
        &params,
        "vamm_real_feed",
    );

    // the feed owner appends a price under the key the vAMM asks for (its `base_asset`) and, for
    // good measure, under the quote asset's name as the scenario constructors do
    for key in [params.base_asset.clone(), params.quote_asset.clone()] {
        let msg = real_feed.append_price(key, price, timestamp).unwrap();
        router.execute(owner.clone(), msg).unwrap();
    }

    // the feed itself works: its answer is a PriceData struct carrying that price
    let answer: PriceData = QuerierWrapper::<Empty>::new(&router)
        .query(&QueryRequest::Wasm(WasmQuery::Smart {
            contract_addr: real_feed.addr().to_string(),
            msg: to_binary(&PricefeedQueryMsg::GetPrice {
                key: params.base_asset.clone(),
            })
            .unwrap(),
        }))
        .unwrap();
    assert_eq!(answer.price, price);
    assert_eq!(answer.round_id, Uint128::new(1));
    assert_eq!(answer.timestamp, Timestamp::from_seconds(timestamp));

    // DEFECT: the vAMM cannot read it.
    // (correct behaviour: `UnderlyingPrice {}` returns 10_000_000_000 and `IsOverSpreadLimit {}`
    //  returns false, as they do behind the mock feed below)
    let err = vamm_query::<Uint128>(&router, &vamm.addr(), &VammQueryMsg::UnderlyingPrice {})
        .unwrap_err()
        .to_string();
    println!("F07d UnderlyingPrice error: {}", err);
    assert!(err.contains("Error parsing into type"), "{}", err);
    assert!(err.contains("Uint128"), "{}", err);

    let err = vamm_query::<bool>(&router, &vamm.addr(), &VammQueryMsg::IsOverSpreadLimit {})
        .unwrap_err()
        .to_string();
    println!("F07d IsOverSpreadLimit error: {}", err);
    assert!(err.contains("Error parsing into type"), "{}", err);
    assert!(err.contains("Uint128"), "{}", err);

    // queries that do not touch the oracle are fine, so the vAMM itself is deployed correctly
    let spot: Uint128 =
        vamm_query(&router, &vamm.addr(), &VammQueryMsg::SpotPrice {}).unwrap();
    assert_eq!(spot, price);

    // ---- control: the very same vAMM code behind the MOCK feed answers -----------------------
    let mock_feed = deploy_mock_pricefeed(&mut router, &owner);
    let vamm_mock = deploy_vamm(
        &mut router,
        &owner,
        &engine,
        None,
        &mock_feed.addr(),
        &params,
        "vamm_mock_feed",
    );
    let msg = mock_feed
        .append_price(params.base_asset.clone(), price, timestamp)
        .unwrap();
    router.execute(owner.clone(), msg).unwrap();

    let underlying: Uint128 = vamm_query(
        &router,
        &vamm_mock.addr(),
        &VammQueryMsg::UnderlyingPrice {},
    )
    .unwrap();
    assert_eq!(underlying, price);
    let over: bool = vamm_query(
        &router,
        &vamm_mock.addr(),
        &VammQueryMsg::IsOverSpreadLimit {},
    )
    .unwrap();
    assert!(!over);
}
