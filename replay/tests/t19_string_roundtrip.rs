//! Conformance TEST (not a proof): decimal string form and parse round-trip of Integer on boundary magnitudes x both signs.
//! Stands in for the string code that is outside both verifiers (DESIGN §7 C19).
use cosmwasm_std::Uint128;
use margined_common::integer::Integer;
use std::str::FromStr;

#[test]
fn t19_string_form_round_trips_on_boundary_values() {
    let mags: Vec<u128> = vec![
        0, 1, 9, 10, 99, 100, 1000, u64::MAX as u128, (u64::MAX as u128) + 1,
        10u128.pow(37), 10u128.pow(38) - 1, 10u128.pow(38), 10u128.pow(38) + 1,
        u128::MAX - 1, u128::MAX,
    ];
    for m in mags {
        for negative in [false, true] {
            let i = Integer { value: Uint128::new(m), negative };
            let s = i.to_string();
            if m == 0 {
                assert_eq!(s, "0", "zero prints as 0 (negative flag {})", negative);
            } else {
                assert_eq!(s.starts_with('-'), negative, "sign of {}", s);
                assert_eq!(s.trim_start_matches('-'), m.to_string());
            }
            let back = Integer::from_str(&s).unwrap_or_else(|e| panic!("{} does not parse: {}", s, e));
            assert!(back == i, "{} parses to a different value", s);
            assert_eq!(back.value, i.value);
            // serde goes through the same string form
            let json = serde_json::to_string(&i).unwrap();
            let back2: Integer = serde_json::from_str(&json).unwrap();
            assert!(back2 == i);
        }
    }
}

/// Conformance TEST (not a proof): sign rule and magnitude of `*`, `/`, checked_mul, checked_div on boundary magnitudes x both signs.
/// Stands in, on the compiled crate, for the 128-bit divider circuit that CBMC cannot finish (the unbounded statement is Verus').
#[test]
fn t19_mul_div_sign_rule_on_boundary_values() {
    let mags: Vec<u128> = vec![0, 1, 2, 3, 4, 5, 7, 12, 48, 1000, u64::MAX as u128, (u64::MAX as u128) + 1, 1 << 100, u128::MAX / 2, u128::MAX - 1, u128::MAX];
    for &ma in mags.iter() {
        for &mb in mags.iter() {
            for na in [false, true] {
                for nb in [false, true] {
                    let a = Integer { value: Uint128::new(ma), negative: na };
                    let b = Integer { value: Uint128::new(mb), negative: nb };
                    let neg = (na && ma != 0) != (nb && mb != 0);
                    match ma.checked_mul(mb) {
                        Some(m) => {
                            let r = a.checked_mul(b).expect("product fits");
                            assert_eq!(r.value.u128(), m);
                            assert_eq!(r.is_negative(), neg && m != 0, "sign of {} * {}", a, b);
                            assert!(r == a * b);
                        }
                        None => assert!(a.checked_mul(b).is_err()),
                    }
                    if mb == 0 {
                        assert!(a.checked_div(b).is_err());
                    } else {
                        let r = a.checked_div(b).expect("non-zero divisor");
                        assert_eq!(r.value.u128(), ma / mb);
                        assert_eq!(r.is_negative(), neg && ma / mb != 0, "sign of {} / {}", a, b);
                        assert!(r == a / b);
                    }
                }
            }
        }
    }
}
