//! Conformance TEST (not a proof): decimal string form and parse round-trip of Integer on boundary magnitudes x both signs.
//! Stands in for the string code that is outside both verifiers (DESIGN §7 C19).
use cosmwasm_std::Uint128;
use margined_common::integer::Integer;
use std::str::FromStr;

#[test]
fn t19_string_form_round_trips_on_boundary_values() {
    let mags: Vec<u128> = vec![
        0, 1, 9, 10, 99, 100, 1000, u64::MAX as u128, (u64::MAX as u128) + 1,
        10u128.pow(37), 10u128.pow(38) - 1, 10u128.pow(38), 10u128.pow(38) + 1,
        u128::MAX - 1, u128::MAX,
    ];
    for m in mags {
        for negative in [false, true] {
            let i = Integer { value: Uint128::new(m), negative };
            let s = i.to_string();
            if m == 0 {
                assert_eq!(s, "0", "zero prints as 0 (negative flag {})", negative);
            } else {
                assert_eq!(s.starts_with('-'), negative, "sign of {}", s);
                assert_eq!(s.trim_start_matches('-'), m.to_string());
            }
            let back = Integer::from_str(&s).unwrap_or_else(|e| panic!("{} does not parse: {}", s, e));
            assert!(back == i, "{} parses to a different value", s);
            assert_eq!(back.value, i.value);
            // serde goes through the same string form
            let json = serde_json::to_string(&i).unwrap();
            let back2: Integer = serde_json::from_str(&json).unwrap();
            assert!(back2 == i);
        }
    }
}

/// Conformance TEST (not a proof): sign rule and magnitude of `*`, `/`, checked_mul, checked_div on boundary magnitudes x both signs.
/// Stands in, on the compiled crate, for the 128-bit divider circuit that CBMC cannot finish (the unbounded statement is Verus').
#[test]
fn t19_mul_div_sign_rule_on_boundary_values() {
    let mags: Vec<u128> = vec![0, 1, 2, 3, 4, 5, 7, 12, 48, 1000, u64::MAX as u128, (u64::MAX as u128) + 1, 1 << 100, u128::MAX / 2, u128::MAX - 1, u128::MAX];
    for &ma in mags.iter() {
        for &mb in mags.iter() {
            for na in [false, true] {
                for nb in [false, true] {
                    let a = Integer { value: Uint128::new(ma), negative: na };
                    let b = Integer { value: Uint128::new(mb), negative: nb };
                    let neg = (na && ma != 0) != (nb && mb != 0);
                    match ma.checked_mul(mb) {
                        Some(m) => {
                            let r = a.checked_mul(b).expect("product fits");
                            assert_eq!(r.value.u128(), m);
                            assert_eq!(r.is_negative(), neg && m != 0, "sign of {} * {}", a, b);
                            assert!(r == a * b);
                        }
                        None => assert!(a.checked_mul(b).is_err()),
                    }
                    if mb == 0 {
                        assert!(a.checked_div(b).is_err());
                    } else {
                        let r = a.checked_div(b).expect("non-zero divisor");
                        assert_eq!(r.value.u128(), ma / mb);
                        assert_eq!(r.is_negative(), neg && ma / mb != 0, "sign of {} / {}", a, b);
                        assert!(r == a / b);
                    }
                }
            }
        }
    }
}

/// Conformance TEST for the std string contracts assumed by the verified `Integer::from_str` (shim/base.rs: str_first_byte,
/// str_after_first_byte, str_parse_u128, axiom_uint_str_shape): decimal text of a u128 is a non-empty digit string that parses back,
/// `&s[..1]` / `&s[1..]` split off exactly the first character when it is one byte and abort otherwise (empty string, multi-byte first char),
/// and `parse::<u128>` rejects text that starts with the sign character.
#[test]
fn t19_std_string_contracts_used_by_from_str() {
    for m in [0u128, 1, 9, 10, 12345, u64::MAX as u128, 10u128.pow(38), u128::MAX] {
        let s = m.to_string();
        assert!(!s.is_empty() && s.chars().all(|c| c.is_ascii_digit()), "decimal text {}", s);
        assert_eq!(s.parse::<u128>().unwrap(), m);
        let neg = format!("-{}", s);
        assert_eq!(&neg[..1], "-");
        assert_eq!(&neg[1..], s.as_str());
        assert!(neg.parse::<u128>().is_err());
        assert_eq!(&s[..1].chars().count(), &1);
        assert_eq!(format!("{}{}", &s[..1], &s[1..]), s);
    }
    assert!("340282366920938463463374607431768211456".parse::<u128>().is_err()); // u128::MAX + 1
    assert!("".parse::<u128>().is_err());
    assert!(std::panic::catch_unwind(|| { let e = String::new(); let _ = &e[..1]; }).is_err(), "empty string: byte slicing aborts");
    assert!(std::panic::catch_unwind(|| { let e = String::from("é1"); let _ = &e[..1]; }).is_err(), "multi-byte first character: byte slicing aborts");
    // the real parser on those inputs (partial-correctness reading: it aborts, the contract says nothing about a returned value)
    assert!(std::panic::catch_unwind(|| Integer::from_str("")).is_err());
    // accepted / rejected exactly as str_int says
    assert!(Integer::from_str("-").is_err());
    assert!(Integer::from_str("--1").is_err());
    assert!(Integer::from_str("-0").unwrap() == Integer::zero());
    assert!(Integer::from_str("+5").is_ok() == "+5".parse::<u128>().is_ok());
}
