//! Conformance TEST (not a proof): decimal string form and parse round-trip of Integer on boundary magnitudes x both signs.
//! Stands in for the string code that is outside both verifiers (DESIGN §7 C19).
use cosmwasm_std::Uint128;
use margined_common::integer::Integer;
use std::str::FromStr;

#[test]
fn t19_string_form_round_trips_on_boundary_values() {
    let mags: Vec<u128> = vec![
        0, 1, 9, 10, 99, 100, 1000, u64::MAX as u128, (u64::MAX as u128) + 1,
        10u128.pow(37), 10u128.pow(38) - 1, 10u128.pow(38), 10u128.pow(38) + 1,
        u128::MAX - 1, u128::MAX,
    ];
    for m in mags {
        for negative in [false, true] {
            let i = Integer { value: Uint128::new(m), negative };
            let s = i.to_string();
            if m == 0 {
                assert_eq!(s, "0", "zero prints as 0 (negative flag {})", negative);
            } else {
                assert_eq!(s.starts_with('-'), negative, "sign of {}", s);
                assert_eq!(s.trim_start_matches('-'), m.to_string());
            }
            let back = Integer::from_str(&s).unwrap_or_else(|e| panic!("{} does not parse: {}", s, e));
            assert!(back == i, "{} parses to a different value", s);
            assert_eq!(back.value, i.value);
            // serde goes through the same string form
            let json = serde_json::to_string(&i).unwrap();
            let back2: Integer = serde_json::from_str(&json).unwrap();
            assert!(back2 == i);
        }
    }
}
