//! Conformance TESTS (sampled, not proofs) for the ASSUMED contracts of dependency crates that the Verus shims state
//! (DESIGN §5: T2 cosmwasm_std data types / Response builders / Api, T3 cw_controllers Admin + Hooks and cw_utils::must_pay,
//! T4 cosmwasm_storage singleton / bucket and cw_storage_plus Item as typed cells, T4b sha3 streaming = digest of the concatenation).
//! Each assertion is the `ensures` of a shim function, evaluated on the real crate. A failure means a proof rests on a wrong
//! assumption about a dependency (reported as undecided, not as a violation of the repository).
use cosmwasm_std::testing::{mock_dependencies, mock_info, MockApi, MockStorage};
use cosmwasm_std::{coin, to_binary, Addr, Api, BankMsg, CosmosMsg, ReplyOn, Response, StdError, SubMsg, Uint128};
use cosmwasm_storage::{bucket, bucket_read, singleton, singleton_read};
use cw_controllers::{Admin, Hooks};
use cw_storage_plus::Item;
use serde::{Deserialize, Serialize};
use sha3::{Digest, Sha3_256};

#[derive(Serialize, Deserialize, Clone, Debug, PartialEq)]
struct Rec {
    a: Uint128,
    b: String,
    c: Vec<u64>,
    d: bool,
}
fn rec(i: u64) -> Rec {
    Rec { a: Uint128::new(u128::MAX - i as u128), b: format!("r{}", i), c: (0..i % 4).collect(), d: i % 2 == 0 }
}

#[test]
fn t00_typed_cells_round_trip_and_do_not_alias() {
    let mut st = MockStorage::new();
    // singleton: absent -> may_load None, load Err; save then load returns the saved value; remove empties the cell
    assert_eq!(singleton_read::<Rec>(&st, b"k1").may_load().unwrap(), None);
    assert!(singleton_read::<Rec>(&st, b"k1").load().is_err());
    singleton(&mut st, b"k1").save(&rec(1)).unwrap();
    singleton(&mut st, b"k2").save(&rec(2)).unwrap();
    assert_eq!(singleton_read::<Rec>(&st, b"k1").load().unwrap(), rec(1));
    assert_eq!(singleton_read::<Rec>(&st, b"k2").may_load().unwrap(), Some(rec(2)));
    singleton(&mut st, b"k1").save(&rec(3)).unwrap();
    assert_eq!(singleton_read::<Rec>(&st, b"k1").load().unwrap(), rec(3));
    assert_eq!(singleton_read::<Rec>(&st, b"k2").load().unwrap(), rec(2)); // other cell untouched
    singleton::<Rec>(&mut st, b"k1").remove();
    assert_eq!(singleton_read::<Rec>(&st, b"k1").may_load().unwrap(), None);
    assert_eq!(singleton_read::<Rec>(&st, b"k2").load().unwrap(), rec(2));
    // bucket: a map from byte keys; distinct keys and distinct namespaces do not alias; absent -> None
    let keys: Vec<Vec<u8>> = vec![b"".to_vec(), b"a".to_vec(), b"ab".to_vec(), b"b".to_vec(), b"contract0".to_vec(), b"contract01".to_vec(), vec![0u8; 32], vec![0xffu8; 32]];
    for (i, k) in keys.iter().enumerate() {
        assert_eq!(bucket_read::<Rec>(&st, b"ns1").may_load(k).unwrap(), None);
        bucket(&mut st, b"ns1").save(k, &rec(i as u64 + 10)).unwrap();
    }
    for (i, k) in keys.iter().enumerate() {
        assert_eq!(bucket_read::<Rec>(&st, b"ns1").may_load(k).unwrap(), Some(rec(i as u64 + 10)));
        assert_eq!(bucket_read::<Rec>(&st, b"ns2").may_load(k).unwrap(), None);
    }
    bucket::<Rec>(&mut st, b"ns1").remove(&keys[2]);
    for (i, k) in keys.iter().enumerate() {
        let exp = if i == 2 { None } else { Some(rec(i as u64 + 10)) };
        assert_eq!(bucket_read::<Rec>(&st, b"ns1").may_load(k).unwrap(), exp);
    }
    assert_eq!(singleton_read::<Rec>(&st, b"k2").load().unwrap(), rec(2));
    // cw_storage_plus::Item
    const IT: Item<Rec> = Item::new("item-one");
    const IT2: Item<Rec> = Item::new("item-two");
    assert_eq!(IT.may_load(&st).unwrap(), None);
    IT.save(&mut st, &rec(7)).unwrap();
    assert_eq!(IT.may_load(&st).unwrap(), Some(rec(7)));
    assert_eq!(IT2.may_load(&st).unwrap(), None);
}

#[test]
fn t00_admin_and_hooks_behave_as_assumed() {
    let mut deps = mock_dependencies();
    const ADMIN: Admin = Admin::new("pauser");
    const HOOKS: Hooks = Hooks::new("whitelist");
    let (a, b, c) = (Addr::unchecked("alice"), Addr::unchecked("bob"), Addr::unchecked("carol"));
    // A NEVER-INITIALISED admin cell makes is_admin / get fail (cw_storage_plus Item::load): the shim's `is_admin is Ok` therefore assumes
    // an instantiated contract - every `instantiate` of the repository calls `set` (their contracts ensure admin == Some(sender)) and the
    // runtime never runs `execute` / `query` on a contract that was not instantiated.
    assert!(ADMIN.is_admin(deps.as_ref(), &a).is_err());
    ADMIN.set(deps.as_mut(), None).unwrap();
    // nobody is admin of an empty cell; get -> None
    assert!(!ADMIN.is_admin(deps.as_ref(), &a).unwrap());
    assert_eq!(ADMIN.get(deps.as_ref()).unwrap(), None);
    assert!(ADMIN.assert_admin(deps.as_ref(), &a).is_err());
    ADMIN.set(deps.as_mut(), Some(a.clone())).unwrap();
    assert_eq!(ADMIN.get(deps.as_ref()).unwrap(), Some(a.clone()));
    assert!(ADMIN.is_admin(deps.as_ref(), &a).unwrap() && !ADMIN.is_admin(deps.as_ref(), &b).unwrap());
    assert!(ADMIN.assert_admin(deps.as_ref(), &a).is_ok() && ADMIN.assert_admin(deps.as_ref(), &b).is_err());
    // only the current admin can hand over; afterwards exactly the new address is admin
    assert!(ADMIN.execute_update_admin::<cosmwasm_std::Empty, cosmwasm_std::Empty>(deps.as_mut(), mock_info("bob", &[]), Some(b.clone())).is_err());
    assert_eq!(ADMIN.get(deps.as_ref()).unwrap(), Some(a.clone()));
    ADMIN.execute_update_admin::<cosmwasm_std::Empty, cosmwasm_std::Empty>(deps.as_mut(), mock_info("alice", &[]), Some(b.clone())).unwrap();
    assert!(ADMIN.is_admin(deps.as_ref(), &b).unwrap() && !ADMIN.is_admin(deps.as_ref(), &a).unwrap());
    // hooks: a set of addresses edited only by the given admin
    assert!(!HOOKS.query_hook(deps.as_ref(), "carol".to_string()).unwrap());
    assert!(HOOKS.execute_add_hook::<cosmwasm_std::Empty, cosmwasm_std::Empty>(&ADMIN, deps.as_mut(), mock_info("alice", &[]), c.clone()).is_err());
    assert!(!HOOKS.query_hook(deps.as_ref(), "carol".to_string()).unwrap());
    HOOKS.execute_add_hook::<cosmwasm_std::Empty, cosmwasm_std::Empty>(&ADMIN, deps.as_mut(), mock_info("bob", &[]), c.clone()).unwrap();
    assert!(HOOKS.query_hook(deps.as_ref(), "carol".to_string()).unwrap());
    assert!(!HOOKS.query_hook(deps.as_ref(), "alice".to_string()).unwrap());
    assert!(HOOKS.execute_add_hook::<cosmwasm_std::Empty, cosmwasm_std::Empty>(&ADMIN, deps.as_mut(), mock_info("bob", &[]), c.clone()).is_err()); // already there
    assert!(HOOKS.execute_remove_hook::<cosmwasm_std::Empty, cosmwasm_std::Empty>(&ADMIN, deps.as_mut(), mock_info("alice", &[]), c.clone()).is_err());
    assert!(HOOKS.query_hook(deps.as_ref(), "carol".to_string()).unwrap());
    HOOKS.execute_remove_hook::<cosmwasm_std::Empty, cosmwasm_std::Empty>(&ADMIN, deps.as_mut(), mock_info("bob", &[]), c.clone()).unwrap();
    assert!(!HOOKS.query_hook(deps.as_ref(), "carol".to_string()).unwrap());
    // the admin cell and the hooks cell do not alias
    assert!(ADMIN.is_admin(deps.as_ref(), &b).unwrap());
}

#[test]
fn t00_must_pay_accepts_exactly_one_non_zero_coin_of_the_denom() {
    use cw_utils::must_pay;
    assert_eq!(must_pay(&mock_info("a", &[coin(5, "ujunox")]), "ujunox").unwrap(), Uint128::new(5));
    assert!(must_pay(&mock_info("a", &[]), "ujunox").is_err());
    assert!(must_pay(&mock_info("a", &[coin(0, "ujunox")]), "ujunox").is_err());
    assert!(must_pay(&mock_info("a", &[coin(5, "uwasm")]), "ujunox").is_err());
    assert!(must_pay(&mock_info("a", &[coin(5, "ujunox"), coin(1, "uwasm")]), "ujunox").is_err());
    assert!(must_pay(&mock_info("a", &[coin(5, "ujunox"), coin(1, "ujunox")]), "ujunox").is_err());
}

#[test]
fn t00_response_builders_append_in_order_and_binary_is_injective() {
    let m = |n: u128| CosmosMsg::<cosmwasm_std::Empty>::Bank(BankMsg::Send { to_address: "x".to_string(), amount: vec![coin(n, "u")] });
    let s = |n: u128, id: u64| SubMsg { id, msg: m(n), gas_limit: None, reply_on: ReplyOn::Always };
    let r = Response::<cosmwasm_std::Empty>::new()
        .add_submessage(s(1, 9))
        .add_attributes(vec![("k1", "v1"), ("k2", "v2")])
        .add_submessages(vec![s(2, 8), s(3, 7)])
        .add_attribute("k3", "v3")
        .add_message(m(4));
    let ids: Vec<u64> = r.messages.iter().map(|x| x.id).collect();
    assert_eq!(ids, vec![9, 8, 7, 0]);
    assert_eq!(r.messages[3].reply_on, ReplyOn::Never);
    let keys: Vec<&str> = r.attributes.iter().map(|a| a.key.as_str()).collect();
    assert_eq!(keys, vec!["k1", "k2", "k3"]);
    assert_eq!(r.attributes[1].value, "v2");
    // to_binary: never fails on plain data, equal payloads <=> equal values (sampled)
    let vals = [rec(0), rec(1), rec(2), rec(3), rec(4), rec(5)];
    for x in vals.iter() {
        for y in vals.iter() {
            assert_eq!(to_binary(x).unwrap() == to_binary(y).unwrap(), x == y);
        }
    }
    // Addr: equality is string equality; unchecked keeps the text; validation returns the text itself or an error
    assert_eq!(Addr::unchecked("abc").as_str(), "abc");
    assert!(Addr::unchecked("abc") != Addr::unchecked("abd") && Addr::unchecked("abc") == Addr::unchecked("abc"));
    let api = MockApi::default();
    assert_eq!(api.addr_validate("contract0").unwrap().as_str(), "contract0");
    assert!(matches!(api.addr_validate(""), Err(StdError::GenericErr { .. })));
    // canonicalize / humanize round-trip on validated text
    let c = api.addr_canonicalize("contract0").unwrap();
    assert_eq!(api.addr_humanize(&c).unwrap().as_str(), "contract0");
}

#[test]
fn t00_sha3_streaming_is_the_digest_of_the_concatenation() {
    for (a, b) in [("contract0", "alice"), ("contract", "0alice"), ("", "contract0alice"), ("c", "")] {
        let mut h = Sha3_256::new();
        h.update(a.as_bytes());
        h.update(b.as_bytes());
        let mut g = Sha3_256::new();
        g.update(format!("{}{}", a, b).as_bytes());
        assert_eq!(h.finalize(), g.finalize());
    }
    let d = |s: &str| { let mut h = Sha3_256::new(); h.update(s.as_bytes()); h.finalize() };
    assert!(d("contract0alice") != d("contract0bob") && d("a") != d("b") && d("") != d("a"));
}
