//! F02a / F06a (properties C02, C06): `partial_liquidation` has a branch
//! `current_notional > position.notional` (the value of the fraction to liquidate exceeds the
//! position's whole open notional) that does NOT `swap_output` the fraction's base amount but
//! `swap_input`s the position's open notional (a QUOTE amount) in the position's OWN direction:
//! the vAMM trade enlarges the position instead of reducing it.  `partial_liquidation_reply`
//! then books the swap's `input` -- that quote amount -- against the BASE size of the position.
//!
//! In the default market (price 10) that sign-flips the size and the reply's notional arithmetic
//! underflows, so the liquidation merely reverts (a C07 failure).  In a market priced below 1
//! (base amounts larger than quote amounts) everything stays in range and the nonsense is
//! COMMITTED: engine and vAMM disagree about the trader's position afterwards.

use cosmwasm_std::{to_binary, Empty, QuerierWrapper, QueryRequest, Uint128, WasmQuery};
use cw_multi_test::Executor;
use margined_common::integer::Integer;
use margined_perp::margined_engine::{PnlCalcOption, Side};
use margined_perp::margined_vamm::{Direction, QueryMsg as VammQueryMsg};
use margined_utils::scenarios::{to_decimals, SimpleScenario};
use verif_replay::{deploy_mock_pricefeed, deploy_vamm, error_chain, next_block, VammParams};

#[test]
fn f02a_partial_liquidation_grows_position_when_fraction_value_exceeds_open_notional() {
    let SimpleScenario {
        mut router,
        alice,
        bob,
        carol,
        owner,
        engine,
        usdc,
        insurance_fund,
        ..
    } = SimpleScenario::new();

    // a second market priced at 0.1: 100 quote / 1000 base, own (mock) oracle
    let feed = deploy_mock_pricefeed(&mut router, &owner);
    let msg = feed
        .append_price("USD".to_string(), Uint128::new(100_000_000), 0)
        .unwrap();
    router.execute(owner.clone(), msg).unwrap();
    let vamm = deploy_vamm(
        &mut router,
        &owner,
        &engine.addr(),
        Some(&insurance_fund),
        &feed.addr(),
        &VammParams {
            quote_asset_reserve: to_decimals(100),
            base_asset_reserve: to_decimals(1_000),
            ..VammParams::like_simple_scenario()
        },
        "vamm_cheap",
    );

    // partial liquidation takes 90 % of the position, liquidation fee 1 %
    let msg = engine
        .set_partial_liquidation_ratio(Uint128::new(900_000_000))
        .unwrap();
    router.execute(owner.clone(), msg).unwrap();
    let msg = engine
        .set_liquidation_fee(Uint128::new(10_000_000))
        .unwrap();
    router.execute(owner.clone(), msg).unwrap();

    // alice: SHORT, margin 10, 1x -> open notional 10, size -111.11        (reserves 90 / 1111.11)
    let msg = engine
        .open_position(
            vamm.addr().to_string(),
            Side::Sell,
            to_decimals(10),
            to_decimals(1),
            Uint128::zero(),
            vec![],
        )
        .unwrap();
    router.execute(alice.clone(), msg).unwrap();
    next_block(&mut router, 15);

    // bob: long 110 notional at 1x: price 0.081 -> 0.4                      (reserves 200 / 500)
    let msg = engine
        .open_position(
            vamm.addr().to_string(),
            Side::Buy,
            to_decimals(110),
            to_decimals(1),
            Uint128::zero(),
            vec![],
        )
        .unwrap();
    router.execute(bob.clone(), msg).unwrap();
    // let the 15 minute TWAP catch up with the spot price
    for _ in 0..4 {
        next_block(&mut router, 900);
    }
    let msg = feed
        .append_price("USD".to_string(), vamm.spot_price(&router).unwrap(), 0)
        .unwrap();
    router.execute(owner.clone(), msg).unwrap();

    let pnl = engine
        .get_unrealized_pnl(
            &router,
            vamm.addr().to_string(),
            alice.to_string(),
            PnlCalcOption::SpotPrice,
        )
        .unwrap();
    // buying her 111.11 base back now costs 57.14 against 10 received: loss 47.14
    assert_eq!(pnl.position_notional, Uint128::new(57_142_857_144));
    assert_eq!(pnl.unrealized_pnl, Integer::new_negative(47_142_857_144u128));

    // alice tops her margin up to 49, so that she is only just below maintenance:
    // margin ratio = (49 - 47.14) / 57.14 = 3.25 %  (maintenance 5 %, liquidation fee 1 %)
    let msg = engine
        .deposit_margin(vamm.addr().to_string(), to_decimals(39), vec![])
        .unwrap();
    router.execute(alice.clone(), msg).unwrap();
    let margin_ratio = engine
        .get_margin_ratio(&router, vamm.addr().to_string(), alice.to_string())
        .unwrap();
    assert_eq!(margin_ratio, Integer::new_positive(32_499_999u128));

    let alice_before = engine
        .position(&router, vamm.addr().to_string(), alice.to_string())
        .unwrap();
    let bob_before = engine
        .position(&router, vamm.addr().to_string(), bob.to_string())
        .unwrap();
    let vamm_before = vamm.state(&router).unwrap();
    assert_eq!(alice_before.direction, Direction::RemoveFromAmm);
    assert_eq!(alice_before.size, Integer::new_negative(111_111_111_112u128));
    assert_eq!(alice_before.margin, to_decimals(49));
    assert_eq!(alice_before.notional, to_decimals(10));
    // engine and vAMM agree before the liquidation
    assert_eq!(
        alice_before.size + bob_before.size,
        vamm_before.total_position_size
    );

    // the branch condition of `partial_liquidation`: the 90 % fraction (100 base) costs 50 quote
    // to buy back, five times the position's whole open notional
    let fraction = alice_before.size.value * Uint128::new(900_000_000) / Uint128::new(1_000_000_000);
    let current_notional: Uint128 = QuerierWrapper::<Empty>::new(&router)
        .query(&QueryRequest::Wasm(WasmQuery::Smart {
            contract_addr: vamm.addr().to_string(),
            msg: to_binary(&VammQueryMsg::OutputAmount {
                direction: Direction::RemoveFromAmm,
                amount: fraction,
            })
            .unwrap(),
        }))
        .unwrap();
    println!(
        "F02a: fraction {} base, current_notional {} > open notional {}",
        fraction, current_notional, alice_before.notional
    );
    assert!(current_notional > alice_before.notional);

    // carol liquidates: the call SUCCEEDS (partial path: 1 % < 3.25 % <= 5 %)
    let carol_before = usdc.balance::<_, _, Empty>(&router, carol.clone()).unwrap();
    let msg = engine
        .liquidate(vamm.addr().to_string(), alice.to_string(), Uint128::zero())
        .unwrap();
    let res = router
        .execute(carol.clone(), msg)
        .unwrap_or_else(|e| panic!("liquidation reverted: {}", error_chain(&e)));
    let attr = |key: &str| -> String {
        res.events
            .iter()
            .flat_map(|e| e.attributes.iter())
            .find(|a| a.key == key)
            .map(|a| a.value.clone())
            .unwrap_or_else(|| panic!("no attribute {}", key))
    };
    // the vAMM trade was a quote-denominated SHORT of alice's open notional
    assert_eq!(attr("type"), "input");
    assert_eq!(attr("direction"), "RemoveFromAmm");
    assert_eq!(attr("quote_asset_amount"), to_decimals(10).to_string());
    let base_shorted: Uint128 = attr("base_asset_amount").parse::<u128>().unwrap().into();
    assert_eq!(base_shorted, Uint128::new(26_315_789_474));
    assert!(res
        .events
        .iter()
        .flat_map(|e| e.attributes.iter())
        .any(|a| a.key == "action" && a.value == "partial_liquidation_reply"));
    let carol_after = usdc.balance::<_, _, Empty>(&router, carol.clone()).unwrap();
    assert_eq!(carol_after - carol_before, Uint128::new(131_578_947));

    let alice_after = engine
        .position(&router, vamm.addr().to_string(), alice.to_string())
        .unwrap();
    let bob_after = engine
        .position(&router, vamm.addr().to_string(), bob.to_string())
        .unwrap();
    let vamm_after = vamm.state(&router).unwrap();
    println!(
        "F02a: engine size alice {} -> {}, vAMM total {} -> {}, engine sum after {}",
        alice_before.size,
        alice_after.size,
        vamm_before.total_position_size,
        vamm_after.total_position_size,
        alice_after.size + bob_after.size
    );
    println!(
        "F02a: alice margin {} -> {}, open notional {} -> {}",
        alice_before.margin, alice_after.margin, alice_before.notional, alice_after.notional
    );
    assert_eq!(bob_after, bob_before);

    // DEFECT (a): in the vAMM the "liquidation" made the short LARGER by 26.3 base
    // (correct behaviour: 90 % of the short, 100 base, is bought back, so the vAMM's net
    //  position goes UP by 100: 500 -> 600, and alice keeps a short of 11.11)
    assert_eq!(
        vamm_after.total_position_size,
        vamm_before.total_position_size - Integer::new_positive(base_shorted)
    );
    assert!(vamm_after.total_position_size < vamm_before.total_position_size);
    let alice_in_vamm_before = vamm_before.total_position_size - bob_before.size;
    let alice_in_vamm_after = vamm_after.total_position_size - bob_after.size;
    assert!(alice_in_vamm_after.abs() > alice_in_vamm_before.abs());
    assert_eq!(
        alice_in_vamm_after,
        Integer::new_negative(137_426_900_586u128)
    );

    // DEFECT (b): the engine booked the swap's QUOTE input (10) against the BASE size:
    // -111.11 + 10 = -101.11, neither the correct -11.11 nor what the vAMM holds (-137.43)
    assert_eq!(
        alice_after.size,
        alice_before.size + Integer::new_positive(alice_before.notional)
    );
    assert_eq!(alice_after.size, Integer::new_negative(101_111_111_112u128));

    // so the engine's positions no longer add up to the vAMM's net position (C02 / C06):
    // 510.0 versus 473.68
    let engine_sum = alice_after.size + bob_after.size;
    assert_ne!(engine_sum, vamm_after.total_position_size);
    assert_eq!(
        engine_sum - vamm_after.total_position_size,
        Integer::new_positive(alice_before.notional + base_shorted)
    );

    // the rest of the stored position: 90 % of the loss and the 1 % penalty left the margin
    assert_eq!(alice_after.margin, Uint128::new(6_308_270_677));
    assert_eq!(alice_after.notional, Uint128::new(2_428_571_429));
}
