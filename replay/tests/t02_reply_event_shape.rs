//! T02 (properties C02, C17, C11) - CONFORMANCE test of the one runtime assumption behind the link theorems
//! `C02_engine_reads_what_the_vamm_reports` / `C11_engine_reads_the_premium_the_vamm_reports` (specs/engine_theorems.vrs,
//! predicate `chain_delivers`): the attributes of the vAMM's response reach the engine as ONE event of type "wasm" whose first
//! attribute names the emitting contract (`_contract_addr` in cw-multi-test, `_contract_address` on chain) and whose remaining
//! attributes are the response's attributes; each key the engine looks up occurs once (other keys may be added freely).
//!
//! Checked here against the real contracts in cw-multi-test; it also ties the reported amounts to what the engine recorded.

use cosmwasm_std::{Event, Uint128};
use cw_multi_test::Executor;
use margined_perp::margined_engine::Side;
use margined_utils::scenarios::SimpleScenario;

fn vamm_events<'a>(events: &'a [Event], vamm: &str, action: &str) -> Vec<&'a Event> {
    events
        .iter()
        .filter(|e| e.ty == "wasm")
        .filter(|e| {
            let first = &e.attributes[0];
            (first.key == "_contract_addr" || first.key == "_contract_address") && first.value == vamm
        })
        .filter(|e| e.attributes.iter().any(|a| a.key == "action" && a.value == action))
        .collect()
}

fn once<'a>(e: &'a Event, key: &str) -> &'a str {
    let hits: Vec<_> = e.attributes.iter().filter(|a| a.key == key).collect();
    assert_eq!(hits.len(), 1, "key {} occurs {} times in {:?}", key, hits.len(), e);
    &hits[0].value
}

#[test]
fn t02_swap_report_reaches_the_engine_as_one_wasm_event() {
    let SimpleScenario { mut router, alice, engine, vamm, .. } = SimpleScenario::new();

    // open long: margin 60, leverage 10 -> swap_input of 600 quote
    let msg = engine
        .open_position(
            vamm.addr().to_string(),
            Side::Buy,
            Uint128::new(60_000_000_000),
            Uint128::new(10_000_000_000),
            Uint128::zero(),
            vec![],
        )
        .unwrap();
    let res = router.execute(alice.clone(), msg).unwrap();
    let evs = vamm_events(&res.events, vamm.addr().as_str(), "swap");
    assert_eq!(evs.len(), 1, "exactly one swap event from the vAMM: {:?}", res.events);
    let e = evs[0];
    // shape: address first (checked by vamm_events), then the response's attributes; extra attributes with other keys are fine
    assert_eq!(once(e, "type"), "input");
    let quote: Uint128 = once(e, "quote_asset_amount").parse().unwrap();
    let base: Uint128 = once(e, "base_asset_amount").parse().unwrap();
    assert_eq!(quote, Uint128::new(600_000_000_000));
    // ... and what the engine recorded is what was reported
    let p = engine.position(&router, vamm.addr().to_string(), alice.to_string()).unwrap();
    assert_eq!(p.notional, quote);
    assert_eq!(p.size.value, base);
    assert!(!p.size.negative);
    println!("T02: swap_input event {:?}", e.attributes);

    // close the whole position: swap_output, input = base, output = quote
    let msg = engine.close_position(vamm.addr().to_string(), Uint128::zero()).unwrap();
    let res = router.execute(alice.clone(), msg).unwrap();
    let evs = vamm_events(&res.events, vamm.addr().as_str(), "swap");
    assert_eq!(evs.len(), 1);
    let e = evs[0];
    assert_eq!(once(e, "type"), "output");
    let base_out: Uint128 = once(e, "base_asset_amount").parse().unwrap();
    let _quote_out: Uint128 = once(e, "quote_asset_amount").parse().unwrap();
    assert_eq!(base_out, base);
    println!("T02: swap_output event {:?}", e.attributes);
}

#[test]
fn t02_funding_report_reaches_the_engine_as_one_wasm_event() {
    let SimpleScenario { mut router, owner, engine, vamm, .. } = SimpleScenario::new();
    router.update_block(|b| {
        b.time = b.time.plus_seconds(86_400);
        b.height += 1;
    });
    let msg = engine.pay_funding(vamm.addr().to_string()).unwrap();
    let res = router.execute(owner.clone(), msg).unwrap();
    let evs = vamm_events(&res.events, vamm.addr().as_str(), "settle_funding");
    assert_eq!(evs.len(), 1, "{:?}", res.events);
    let e = evs[0];
    let reported: margined_common::integer::Integer = once(e, "premium_fraction").parse().unwrap();
    let booked = engine.get_latest_cumulative_premium_fraction(&router, vamm.addr().to_string()).unwrap();
    assert_eq!(booked, reported);
    println!("T02: settle_funding event {:?}", e.attributes);
}
