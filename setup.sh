#!/bin/sh
# Offline setup: pre-build the dependencies of the two cargo crates under /verif so that later runs only rebuild the
# path-dependencies on /repo. Nothing is fetched; target directories live under /verif/target.
cd /verif
mkdir -p build .cache evidence target
cp /repo/Cargo.lock kani/Cargo.lock
cp /repo/Cargo.lock replay/Cargo.lock
( cd kani && CARGO_NET_OFFLINE=true cargo kani -Z stubbing --harness c19_sign_predicates --output-format terse >/verif/build/setup_kani.log 2>&1 ) \
  || echo "kani warm-up failed (see build/setup_kani.log); Kani obligations will be reported undecided"
( cd replay && CARGO_NET_OFFLINE=true cargo test --offline --no-run >/verif/build/setup_replay.log 2>&1 ) \
  || echo "replay build failed (see build/setup_replay.log); thorough-tier replays will be reported undecided"
verus --version >/dev/null || echo "verus missing"
echo setup done
