#!/bin/sh
# Offline setup: pre-build the Kani harness crate's dependencies so later runs only rebuild path-dependencies.
set -e
cd /verif
mkdir -p build .cache evidence target
cp /repo/Cargo.lock kani/Cargo.lock
( cd kani && CARGO_NET_OFFLINE=true cargo kani -Z stubbing --harness c19_sign_predicates --output-format terse >/verif/build/setup_kani.log 2>&1 ) || echo "kani warm-up failed (see build/setup_kani.log); checks will report undecided for Kani obligations"
verus --version >/dev/null
echo setup done
