//! Kani harnesses on the COMPILED REAL crate margined_common (no extraction): C19.
//! Loop-free, full-domain symbolic operands => complete proofs (not bounded), except the
//! string round-trip harnesses which are labelled bounded.
#![allow(unused)]
use cosmwasm_std::Uint128;
use margined_common::integer::Integer;

#[cfg(kani)]
mod harness {
    use super::*;

    fn stub_to_string<T: std::fmt::Display + ?Sized>(_: &T) -> String {
        String::new()
    }

    fn any_integer() -> Integer {
        Integer { value: Uint128::new(kani::any()), negative: kani::any() }
    }

    /// BOUNDED stand-in operand for the multiplier / divider circuits (full 128-bit operands do not terminate in
    /// CBMC); the unbounded statement is discharged by Verus (unit common: mul, div, checked_mul, checked_div).
    fn any_integer_bounded() -> Integer {
        let v: u128 = kani::any();
        kani::assume(v < (1u128 << 24) || v > u128::MAX - 4);
        Integer { value: Uint128::new(v), negative: kani::any() }
    }

    /// BOUNDED (8-bit magnitudes) operand for the 128-bit divider circuit
    fn any_integer_small() -> Integer {
        let v: u8 = kani::any();
        Integer { value: Uint128::new(v as u128), negative: kani::any() }
    }

    /// mathematical value as (magnitude, is_strictly_negative)
    fn norm(i: &Integer) -> (u128, bool) {
        (i.value.u128(), i.negative && i.value.u128() != 0)
    }

    fn math_eq(a: &Integer, b: &Integer) -> bool {
        norm(a) == norm(b)
    }

    fn math_lt(a: &Integer, b: &Integer) -> bool {
        let (ma, na) = norm(a);
        let (mb, nb) = norm(b);
        match (na, nb) {
            (true, false) => true,
            (false, true) => false,
            (false, false) => ma < mb,
            (true, true) => ma > mb,
        }
    }

    /// (magnitude, negative) of a+b when representable
    fn math_add(a: &Integer, b: &Integer) -> Option<(u128, bool)> {
        let (ma, na) = norm(a);
        let (mb, nb) = norm(b);
        if na == nb {
            ma.checked_add(mb).map(|m| (m, na && m != 0))
        } else if ma >= mb {
            Some((ma - mb, na && ma != mb))
        } else {
            Some((mb - ma, nb))
        }
    }

    #[kani::proof]
    fn c19_eq_agrees() {
        let a = any_integer();
        let b = any_integer();
        kani::cover!(a.value.u128() == 0 && b.value.u128() == 0 && a.negative != b.negative);
        assert!((a == b) == math_eq(&a, &b));
    }

    #[kani::proof]
    fn c19_cmp_agrees() {
        let a = any_integer();
        let b = any_integer();
        assert!((a < b) == math_lt(&a, &b));
        assert!((a > b) == math_lt(&b, &a));
        assert!((a <= b) == !math_lt(&b, &a));
        assert!((a.cmp(&b) == std::cmp::Ordering::Less) == math_lt(&a, &b));
        assert!((a.cmp(&b) == std::cmp::Ordering::Equal) == math_eq(&a, &b));
    }

    #[kani::proof]
    fn c19_sign_predicates() {
        let a = any_integer();
        let (m, n) = norm(&a);
        assert!(a.is_negative() == n);
        assert!(a.is_positive() == !n);
        assert!(a.is_zero() == (m == 0));
    }

    #[kani::proof]
    fn c19_add_agrees() {
        let a = any_integer();
        let b = any_integer();
        if let Some(exp) = math_add(&a, &b) {
            let r = a + b;
            assert!(norm(&r) == exp);
            // consistency: a zero result equals zero, is not < 0, is not negative
            if exp.0 == 0 {
                assert!(r == Integer::zero());
                assert!(!(r < Integer::zero()));
                assert!(!r.is_negative());
            }
        }
    }

    #[kani::proof]
    fn c19_sub_agrees() {
        let a = any_integer();
        let b = any_integer();
        let nb = Integer { value: b.value, negative: !b.negative };
        if let Some(exp) = math_add(&a, &nb) {
            let r = a - b;
            assert!(norm(&r) == exp);
            if exp.0 == 0 {
                assert!(r == Integer::zero());
                assert!(!(r < Integer::zero()));
            }
        }
    }

    #[kani::proof]
    #[kani::stub(<Integer as std::string::ToString>::to_string, stub_to_string)]
    fn c19_checked_add() {
        let a = any_integer();
        let b = any_integer();
        let r = a.checked_add(b);
        match math_add(&a, &b) {
            Some(exp) => {
                assert!(r.is_ok());
                assert!(norm(&r.unwrap()) == exp);
                assert!(norm(&(a + b)) == exp);
            }
            None => assert!(r.is_err()),
        }
    }

    #[kani::proof]
    #[kani::stub(<Integer as std::string::ToString>::to_string, stub_to_string)]
    fn c19_checked_sub() {
        let a = any_integer();
        let b = any_integer();
        let nb = Integer { value: b.value, negative: !b.negative };
        let r = a.checked_sub(b);
        match math_add(&a, &nb) {
            Some(exp) => {
                assert!(r.is_ok());
                assert!(norm(&r.unwrap()) == exp);
            }
            None => assert!(r.is_err()),
        }
    }

    #[kani::proof]
    fn c19_neg_abs() {
        let a = any_integer();
        let (m, n) = norm(&a);
        let neg = a.invert_sign();
        assert!(norm(&neg) == (m, !n && m != 0));
        assert!(norm(&a.abs()) == (m, false));
        // a + (-a) is zero, equals zero, not < 0
        let z = a + neg;
        assert!(z.value.u128() == 0);
        assert!(z == Integer::zero());
        assert!(!(z < Integer::zero()));
        assert!(!z.is_negative());
    }

    #[kani::proof]
    #[kani::stub(<Integer as std::string::ToString>::to_string, stub_to_string)]
    fn c19_mul_sign_and_checked() {
        // multiplication magnitude is u128 multiplication; signs by rule; checked fails exactly on overflow
        let a = any_integer_bounded();
        let b = any_integer_bounded();
        let (ma, na) = norm(&a);
        let (mb, nb) = norm(&b);
        let r = a.checked_mul(b);
        match ma.checked_mul(mb) {
            Some(m) => {
                assert!(r.is_ok());
                let r = r.unwrap();
                assert!(norm(&r) == (m, (na != nb) && m != 0));
                if m == 0 {
                    assert!(r == Integer::zero());
                    assert!(!(r < Integer::zero()));
                }
            }
            None => assert!(r.is_err()),
        }
    }

    /// full-domain version of c19_mul_sign_and_checked (thorough tier; minutes): every 2 x 2^128 operand pair
    #[kani::proof]
    #[kani::stub(<Integer as std::string::ToString>::to_string, stub_to_string)]
    fn c19_mul_full_domain() {
        let a = any_integer();
        let b = any_integer();
        let (ma, na) = norm(&a);
        let (mb, nb) = norm(&b);
        let r = a.checked_mul(b);
        match ma.checked_mul(mb) {
            Some(m) => {
                assert!(r.is_ok());
                let r = r.unwrap();
                assert!(norm(&r) == (m, (na != nb) && m != 0));
                if m == 0 {
                    assert!(r == Integer::zero());
                    assert!(!(r < Integer::zero()));
                }
            }
            None => assert!(r.is_err()),
        }
    }

    #[kani::proof]
    fn c19_div_sign_and_checked() {
        let a = any_integer_small();
        let b = any_integer_small();
        let (ma, na) = norm(&a);
        let (mb, nb) = norm(&b);
        let r = a.checked_div(b);
        if mb == 0 {
            assert!(r.is_err());
        } else {
            assert!(r.is_ok());
            let r = r.unwrap();
            let q = ma / mb;
            assert!(norm(&r) == (q, (na != nb) && q != 0));
            assert!(norm(&(a / b)) == (q, (na != nb) && q != 0));
            if q == 0 {
                assert!(r == Integer::zero());
                assert!(!(r < Integer::zero()));
            }
        }
    }

    // ------------------------------------------------------------------------------------------------------------
    // T1 guard (DESIGN §5): the ASSUMED contracts of cosmwasm_std::Uint128 / Timestamp in /verif/shim/base.rs are
    // compared here with the compiled REAL dependency crate, over the full operand domain (loop-free => complete).
    // Each assertion is the shim's `ensures` clause, with Verus' mathematical `+ - *` written as native checked u128
    // arithmetic (None = the mathematical result does not fit 128 bits).
    // ------------------------------------------------------------------------------------------------------------
    fn any_u() -> (u128, Uint128) {
        let v: u128 = kani::any();
        (v, Uint128::new(v))
    }

    #[kani::proof]
    #[kani::stub(<Uint128 as std::string::ToString>::to_string, stub_to_string)]
    fn t1_uint128_checked_add_sub() {
        let (a, ua) = any_u();
        let (b, ub) = any_u();
        // shim: r is Ok <==> a + b <= MAX ; Ok ==> value == a + b
        match ua.checked_add(ub) {
            Ok(r) => assert!(a.checked_add(b) == Some(r.u128())),
            Err(_) => assert!(a.checked_add(b).is_none()),
        }
        // shim: r is Ok <==> a >= b ; Ok ==> value == a - b
        match ua.checked_sub(ub) {
            Ok(r) => assert!(a >= b && r.u128() == a - b),
            Err(_) => assert!(a < b),
        }
        kani::cover!(ua.checked_add(ub).is_err());
        kani::cover!(ua.checked_sub(ub).is_ok());
    }

    #[kani::proof]
    #[kani::stub(<Uint128 as std::string::ToString>::to_string, stub_to_string)]
    fn t1_uint128_checked_mul() {
        let (a, ua) = any_u();
        let (b, ub) = any_u();
        match ua.checked_mul(ub) {
            Ok(r) => assert!(a.checked_mul(b) == Some(r.u128())),
            Err(_) => assert!(a.checked_mul(b).is_none()),
        }
    }

    // checked_div / checked_rem / `/` / `%` and Timestamp (u64 nanoseconds divided by 10^9): CBMC's divider circuits do not terminate
    // here even when the harness only states "same as the native operator"; those contracts are guarded by the conformance TEST
    // replay/tests/t01_uint128_div_timestamp_conformance.rs on a boundary grid (a test, not a proof; they stay assumptions).

    #[kani::proof]
    fn t1_uint128_total_functions() {
        let (a, ua) = any_u();
        let (b, ub) = any_u();
        assert!(Uint128::zero().u128() == 0);
        assert!(ua.u128() == a);
        assert!(ua.is_zero() == (a == 0));
        assert!(Uint128::MAX.u128() == u128::MAX);
        assert!(ua.saturating_sub(ub).u128() == if a >= b { a - b } else { 0 });
        assert!(ua.saturating_add(ub).u128() == match a.checked_add(b) { Some(s) => s, None => u128::MAX });
        assert!(ua.abs_diff(ub).u128() == if a >= b { a - b } else { b - a });
        assert!(ua.min(ub).u128() == if a <= b { a } else { b });
        assert!(ua.max(ub).u128() == if a >= b { a } else { b });
        assert!((ua.cmp(&ub) == std::cmp::Ordering::Less) == (a < b));
        assert!((ua.cmp(&ub) == std::cmp::Ordering::Equal) == (a == b));
        assert!((ua.cmp(&ub) == std::cmp::Ordering::Greater) == (a > b));
        assert!(ua.partial_cmp(&ub) == Some(ua.cmp(&ub)));
        assert!((ua == ub) == (a == b));
        assert!((ua < ub) == (a < b) && (ua <= ub) == (a <= b) && (ua > ub) == (a > b) && (ua >= ub) == (a >= b));
        let w: u64 = kani::any();
        assert!(Uint128::from(w).u128() == w as u128);
        let x: u32 = kani::any();
        assert!(Uint128::from(x).u128() == x as u128);
        let y: u16 = kani::any();
        assert!(Uint128::from(y).u128() == y as u128);
        let z: u8 = kani::any();
        assert!(Uint128::from(z).u128() == z as u128);
        assert!(Uint128::from(a).u128() == a);
        let back: u128 = ua.into();
        assert!(back == a);
    }

    /// operators: when the mathematical result fits (divisor non-zero) they return it (the shim's `*_spec`)
    #[kani::proof]
    fn t1_uint128_operators_value() {
        let (a, ua) = any_u();
        let (b, ub) = any_u();
        if let Some(s) = a.checked_add(b) {
            assert!((ua + ub).u128() == s);
            let mut c = ua;
            c += ub;
            assert!(c.u128() == s);
        }
        if a >= b {
            assert!((ua - ub).u128() == a - b);
            let mut c = ua;
            c -= ub;
            assert!(c.u128() == a - b);
        }
    }

    #[kani::proof]
    fn t1_uint128_operator_mul_value() {
        let (a, ua) = any_u();
        let (b, ub) = any_u();
        if let Some(s) = a.checked_mul(b) {
            assert!((ua * ub).u128() == s);
        }
    }

    /// operators: outside that domain they never return (the shim's partial-mode `ensures in-range` / total-mode `*_req`)
    #[kani::proof]
    #[kani::should_panic]
    fn t1_uint128_add_overflow_panics() {
        let (a, ua) = any_u();
        let (b, ub) = any_u();
        kani::assume(a.checked_add(b).is_none());
        let _ = ua + ub;
    }

    #[kani::proof]
    #[kani::should_panic]
    fn t1_uint128_sub_underflow_panics() {
        let (a, ua) = any_u();
        let (b, ub) = any_u();
        kani::assume(a < b);
        let _ = ua - ub;
    }

    #[kani::proof]
    #[kani::should_panic]
    fn t1_uint128_div_by_zero_panics() {
        let (_, ua) = any_u();
        let _ = ua / Uint128::zero();
    }

    // ------------------------------------------------------------------------------------------------------------
    // C20: the validators of margined_common::validate on the COMPILED crate (no extraction), full operand domain.
    // ------------------------------------------------------------------------------------------------------------
    // (validate_ratio / validate_margin_ratios / validate_non_fraction return StdResult<Response>: CBMC does not finish on Response's drop
    // glue - they stay with Verus)
    #[kani::proof]
    #[kani::unwind(8)]
    fn c20_validate_decimal_places() {
        let dp: u8 = kani::any();
        kani::assume(dp <= 38);      // 10^39 does not fit 128 bits: the call aborts there (overflow check), which rejects the configuration too
        let r = margined_common::validate::validate_decimal_places(dp);
        assert!(r.is_ok() == (dp >= 6));
        if let Ok(d) = r {
            // the result is a power of ten with exactly dp zeros: check by the defining recurrence on the two neighbours in a table-free way
            const P: [u128; 39] = [1, 10, 100, 1_000, 10_000, 100_000, 1_000_000, 10_000_000, 100_000_000, 1_000_000_000, 10_000_000_000,
                100_000_000_000, 1_000_000_000_000, 10_000_000_000_000, 100_000_000_000_000, 1_000_000_000_000_000, 10_000_000_000_000_000,
                100_000_000_000_000_000, 1_000_000_000_000_000_000, 10_000_000_000_000_000_000, 100_000_000_000_000_000_000,
                1_000_000_000_000_000_000_000, 10_000_000_000_000_000_000_000, 100_000_000_000_000_000_000_000,
                1_000_000_000_000_000_000_000_000, 10_000_000_000_000_000_000_000_000, 100_000_000_000_000_000_000_000_000,
                1_000_000_000_000_000_000_000_000_000, 10_000_000_000_000_000_000_000_000_000, 100_000_000_000_000_000_000_000_000_000,
                1_000_000_000_000_000_000_000_000_000_000, 10_000_000_000_000_000_000_000_000_000_000,
                100_000_000_000_000_000_000_000_000_000_000, 1_000_000_000_000_000_000_000_000_000_000_000,
                10_000_000_000_000_000_000_000_000_000_000_000, 100_000_000_000_000_000_000_000_000_000_000_000,
                1_000_000_000_000_000_000_000_000_000_000_000_000, 10_000_000_000_000_000_000_000_000_000_000_000_000,
                100_000_000_000_000_000_000_000_000_000_000_000_000];
            assert!(d.u128() == P[dp as usize]);
        }
    }
}
