// ===== shim/core.rs — assumed contracts of cosmwasm_std messages / Response / Api (trusted base T2) =====
// ---------- messages ----------
#[derive(Clone, Copy, Debug, PartialEq, Eq)]
pub enum ReplyOn { Always, Error, Success, Never }
unsafe impl Structural for ReplyOn {}

pub struct Binary { pub p: Ghost<Payload> }

pub enum BankMsg {
    Send { to_address: String, amount: Vec<Coin> },
}
pub enum WasmMsg {
    Execute { contract_addr: String, msg: Binary, funds: Vec<Coin> },
}
pub enum CosmosMsg {
    Bank(BankMsg),
    Wasm(WasmMsg),
}
pub struct SubMsg {
    pub msg: CosmosMsg,
    pub gas_limit: Option<u64>,
    pub id: u64,
    pub reply_on: ReplyOn,
}
impl Clone for SubMsg {
    #[verifier::external_body]
    fn clone(&self) -> (r: SubMsg) ensures r == *self, { unimplemented!() }
}
// cosmwasm_std constructors (T2): `SubMsg::new` is fire-and-forget (id 0 = UNUSED_MSG_ID, ReplyOn::Never); the `reply_*` forms carry the id
pub open spec fn plain_submsg(m: CosmosMsg) -> SubMsg { SubMsg { msg: m, gas_limit: None, id: 0, reply_on: ReplyOn::Never } }
impl SubMsg {
    pub fn new(msg: CosmosMsg) -> (r: SubMsg) ensures r == plain_submsg(msg),
    { SubMsg { msg: msg, gas_limit: None, id: 0, reply_on: ReplyOn::Never } }
    pub fn reply_on_success(msg: CosmosMsg, id: u64) -> (r: SubMsg) ensures r == (SubMsg { msg: msg, gas_limit: None, id: id, reply_on: ReplyOn::Success }),
    { SubMsg { msg: msg, gas_limit: None, id: id, reply_on: ReplyOn::Success } }
    pub fn reply_on_error(msg: CosmosMsg, id: u64) -> (r: SubMsg) ensures r == (SubMsg { msg: msg, gas_limit: None, id: id, reply_on: ReplyOn::Error }),
    { SubMsg { msg: msg, gas_limit: None, id: id, reply_on: ReplyOn::Error } }
    pub fn reply_always(msg: CosmosMsg, id: u64) -> (r: SubMsg) ensures r == (SubMsg { msg: msg, gas_limit: None, id: id, reply_on: ReplyOn::Always }),
    { SubMsg { msg: msg, gas_limit: None, id: id, reply_on: ReplyOn::Always } }
}

pub trait ToPayload {
    spec fn payload(&self) -> Payload;
}

// serde serialisation of the repository's plain message enums cannot fail (T2); the payload is the value
#[verifier::external_body]
pub fn to_binary<T: ToPayload>(t: &T) -> (r: StdResult<Binary>)
    ensures r is Ok, r->Ok_0.p@ == t.payload(),
{ unimplemented!() }

// ---------- Response ----------
pub struct Response {
    pub messages: Vec<SubMsg>,
    pub attributes: Ghost<Seq<(Seq<char>, Seq<char>)>>,
}

pub trait AttrList {
    spec fn attrs(&self) -> Seq<(Seq<char>, Seq<char>)>;
}
impl<'a, 'b> AttrList for Vec<(&'a str, &'b str)> {
    open spec fn attrs(&self) -> Seq<(Seq<char>, Seq<char>)> {
        Seq::new(self@.len(), |i: int| (self@[i].0@, self@[i].1@))
    }
}
impl<'a, 'b> AttrList for Vec<(&'a str, &'b String)> {
    open spec fn attrs(&self) -> Seq<(Seq<char>, Seq<char>)> {
        Seq::new(self@.len(), |i: int| (self@[i].0@, self@[i].1@))
    }
}
impl<'a> AttrList for Vec<(&'a str, String)> {
    open spec fn attrs(&self) -> Seq<(Seq<char>, Seq<char>)> {
        Seq::new(self@.len(), |i: int| (self@[i].0@, self@[i].1@))
    }
}
impl AttrList for Vec<(String, String)> {
    open spec fn attrs(&self) -> Seq<(Seq<char>, Seq<char>)> {
        Seq::new(self@.len(), |i: int| (self@[i].0@, self@[i].1@))
    }
}
impl<'a, 'b, const N: usize> AttrList for [(&'a str, &'b str); N] {
    open spec fn attrs(&self) -> Seq<(Seq<char>, Seq<char>)> {
        Seq::new(self@.len(), |i: int| (self@[i].0@, self@[i].1@))
    }
}

impl Response {
    #[verifier::external_body]
    pub fn new() -> (r: Response)
        ensures r.messages@.len() == 0, r.attributes@.len() == 0,
    { unimplemented!() }

    #[verifier::external_body]
    pub fn default() -> (r: Response)
        ensures r.messages@.len() == 0, r.attributes@.len() == 0,
    { unimplemented!() }

    #[verifier::external_body]
    pub fn add_attribute<K: StrLike, V: StrLike>(self, key: K, value: V) -> (r: Response)
        ensures
            r.messages@ == self.messages@,
            r.attributes@ == self.attributes@.push((key.sview(), value.sview())),
    { unimplemented!() }

    #[verifier::external_body]
    pub fn add_attributes<A: AttrList>(self, attrs: A) -> (r: Response)
        ensures
            r.messages@ == self.messages@,
            r.attributes@ == self.attributes@ + attrs.attrs(),
    { unimplemented!() }

    #[verifier::external_body]
    pub fn add_submessage(self, msg: SubMsg) -> (r: Response)
        ensures
            r.messages@ == self.messages@.push(msg),
            r.attributes@ == self.attributes@,
    { unimplemented!() }

    // add_message(s): each message is wrapped by SubMsg::new (no reply)
    #[verifier::external_body]
    pub fn add_message(self, msg: CosmosMsg) -> (r: Response)
        ensures
            r.messages@ == self.messages@.push(plain_submsg(msg)),
            r.attributes@ == self.attributes@,
    { unimplemented!() }

    #[verifier::external_body]
    pub fn add_messages(self, msgs: Vec<CosmosMsg>) -> (r: Response)
        ensures
            r.messages@ == self.messages@ + Seq::new(msgs@.len(), |i: int| plain_submsg(msgs@[i])),
            r.attributes@ == self.attributes@,
    { unimplemented!() }

    #[verifier::external_body]
    pub fn add_submessages(self, msgs: Vec<SubMsg>) -> (r: Response)
        ensures
            r.messages@ == self.messages@ + msgs@,
            r.attributes@ == self.attributes@,
    { unimplemented!() }
}
pub struct CanonicalAddr { pub c: Ghost<Seq<char>> }
pub uninterp spec fn canon_of(s: Seq<char>) -> Seq<char>;
pub uninterp spec fn human_of(c: Seq<char>) -> Seq<char>;
#[verifier::external_body]
pub proof fn axiom_canonical_round_trip(s: Seq<char>)
    requires addr_valid(s),
    ensures human_of(canon_of(s)) == s,
{}
impl Clone for Response {
    #[verifier::external_body]
    fn clone(&self) -> (r: Response) ensures r == *self, { unimplemented!() }
}

// ---------- Api ----------
pub uninterp spec fn addr_valid(s: Seq<char>) -> bool;   // what the chain's address validation accepts
// well-formed CONTRACT addresses of the chain (fixed format, hence fixed length). Only the addresses of contracts that answer
// smart queries are assumed well-formed; caller-supplied strings - even ones that pass addr_validate - are not.
pub uninterp spec fn is_address(s: Seq<char>) -> bool;
pub struct Api { pub _a: Ghost<int> }
impl Api {
    // addr_validate(s) returns the same text as an Addr, or Err (T2)
    #[verifier::external_body]
    pub fn addr_validate(&self, human: &str) -> (r: StdResult<Addr>)
        ensures r is Ok <==> addr_valid(human@), r is Ok ==> r->Ok_0@ == human@,
    { unimplemented!() }
    // canonical form and back: deterministic functions of the text; the round trip is the identity only for texts the chain validates
    #[verifier::external_body]
    pub fn addr_canonicalize(&self, human: &str) -> (r: StdResult<CanonicalAddr>)
        ensures r is Ok ==> r->Ok_0.c@ == canon_of(human@),
    { unimplemented!() }
    #[verifier::external_body]
    pub fn addr_humanize(&self, canonical: &CanonicalAddr) -> (r: StdResult<Addr>)
        ensures r is Ok ==> r->Ok_0@ == human_of(canonical.c@),
    { unimplemented!() }
}
