// The whole base shim lives in a sub-module: Verus rejects a module-level `broadcast use` of lemmas whose
// dependencies are defined in the same module. derive(Structural) crashes this Verus build inside a nested
// module, so structural equality of these derive(PartialEq) types is asserted with `unsafe impl Structural`.
pub mod base {
use vstd::prelude::*;
use vstd::std_specs::convert::*;
use vstd::std_specs::cmp::{OrdSpec, PartialEqSpec, PartialOrdSpec};
// ===== shim/base.rs — assumed contracts of the cosmwasm_std API surface (trusted base T1,T2) =====
// Everything in this file is an ASSUMPTION about a dependency crate, not code under verification.
// Exec bodies are never run (the assembled unit is only verified), so shim types carry ghost views.

// ---------- strings ----------
pub trait StrLike {
    spec fn sview(&self) -> Seq<char>;
}
impl StrLike for &str {
    open spec fn sview(&self) -> Seq<char> { (*self)@ }
}
impl StrLike for String {
    open spec fn sview(&self) -> Seq<char> { self@ }
}
impl StrLike for &String {
    open spec fn sview(&self) -> Seq<char> { (*self)@ }
}

#[verifier::external_body]
pub fn string_from_str(s: &str) -> (r: String)
    ensures r@ == s@,
{ unimplemented!() }

pub trait ToStr {
    spec fn str_spec(&self) -> Seq<char>;
    fn to_string(&self) -> (r: String)
        ensures r@ == self.str_spec();
}

// std's blanket `impl<T: Display> ToString for T`: vstd gives `to_string_from_display_ensures`; u64 prints its decimal digits
#[verifier::external_body]
pub broadcast proof fn axiom_display_u64(v: u64, s: String)
    ensures #[trigger] vstd::string::to_string_from_display_ensures::<u64>(&v, s) ==> s@ == uint_str(v as int),
{}
// ... and a String prints itself
#[verifier::external_body]
pub broadcast proof fn axiom_display_string(v: String, s: String)
    ensures #[trigger] vstd::string::to_string_from_display_ensures::<String>(&v, s) ==> s@ == v@,
{}
impl ToStr for &str {
    open spec fn str_spec(&self) -> Seq<char> { (*self)@ }
    #[verifier::external_body]
    fn to_string(&self) -> (r: String) { unimplemented!() }
}

// std text transformations: deterministic functions of the text, nothing more is assumed (in particular NOT that they are the identity)
pub uninterp spec fn str_upper(s: Seq<char>) -> Seq<char>;
pub uninterp spec fn str_lower(s: Seq<char>) -> Seq<char>;
pub uninterp spec fn str_trim(s: Seq<char>) -> Seq<char>;
pub assume_specification[ str::to_uppercase ](s: &str) -> (r: String) ensures r@ == str_upper(s@);
pub assume_specification[ str::to_lowercase ](s: &str) -> (r: String) ensures r@ == str_lower(s@);
pub assume_specification[ str::to_ascii_uppercase ](s: &str) -> (r: String) ensures r@ == str_upper(s@);
pub assume_specification[ str::to_ascii_lowercase ](s: &str) -> (r: String) ensures r@ == str_lower(s@);
pub assume_specification<'a>[ str::trim ](s: &'a str) -> (r: &'a str) ensures r@ == str_trim(s@);
// `x.self_ref()` is `&x` whether x is a value or already a reference (method auto-ref): used by rewrite R18 to bind the receiver of an
// inlined `&self` method once, whatever the receiver expression's own type
pub trait SelfRef { fn self_ref(&self) -> (r: &Self) ensures r == self; }
impl<T> SelfRef for T { fn self_ref(&self) -> (r: &T) { self } }
// string equality test used by rewrite R17 (a `match` on string literals becomes an if-chain over it): exact in both directions
#[verifier::external_body]
pub fn str_is(a: &str, b: &str) -> (r: bool)
    ensures r == (a@ == b@),
{ a == b }
// std combinators that vstd does not specify yet (documented behaviour; a body that uses one stays inside the verifiable subset)
pub assume_specification<T, E>[ Result::<T, E>::unwrap_or ](s: Result<T, E>, d: T) -> (r: T)
    ensures r == (match s { Ok(v) => v, Err(_) => d });
pub assume_specification<T>[ Option::<T>::or ](s: Option<T>, o: Option<T>) -> (r: Option<T>)
    ensures r == (match s { Some(v) => Some(v), None => o });
pub assume_specification<T, U>[ Option::<T>::and ](s: Option<T>, o: Option<U>) -> (r: Option<U>)
    ensures r == (match s { Some(_) => o, None => None::<U> });
pub assume_specification<T, E, F>[ Result::<T, E>::or ](s: Result<T, E>, o: Result<T, F>) -> (r: Result<T, F>)
    ensures r == (match s { Ok(v) => Ok::<T, F>(v), Err(_) => o });
pub assume_specification<T>[ bool::then_some ](b: bool, t: T) -> (r: Option<T>)
    ensures r == (if b { Some(t) } else { None::<T> });
pub assume_specification[ u128::abs_diff ](a: u128, b: u128) -> (r: u128)
    ensures r == (if a >= b { a - b } else { b - a });
pub assume_specification[ u64::abs_diff ](a: u64, b: u64) -> (r: u64)
    ensures r == (if a >= b { a - b } else { b - a });
pub assume_specification<T, E>[ Option::<Result<T, E>>::transpose ](o: Option<Result<T, E>>) -> (r: Result<Option<T>, E>)
    ensures
        o is None ==> r == Ok::<Option<T>, E>(None),
        o is Some && o->Some_0 is Ok ==> r == Ok::<Option<T>, E>(Some(o->Some_0->Ok_0)),
        o is Some && o->Some_0 is Err ==> r == Err::<Option<T>, E>(o->Some_0->Err_0);

// ---------- panics (partial-correctness mode, DESIGN §3) ----------
pub trait UnwrapOrAbort<T> {
    spec fn uoa_ok(&self) -> bool;
    spec fn uoa_val(&self) -> T;
    fn unwrap_or_abort(self) -> (r: T)
        ensures self.uoa_ok(), r == self.uoa_val();
}

impl<T> UnwrapOrAbort<T> for Option<T> {
    open spec fn uoa_ok(&self) -> bool { self is Some }
    open spec fn uoa_val(&self) -> T { self->Some_0 }
    #[verifier::external_body]
    fn unwrap_or_abort(self) -> (r: T) { unimplemented!() }
}
impl<T, E> UnwrapOrAbort<T> for Result<T, E> {
    open spec fn uoa_ok(&self) -> bool { self is Ok }
    open spec fn uoa_val(&self) -> T { self->Ok_0 }
    #[verifier::external_body]
    fn unwrap_or_abort(self) -> (r: T) { unimplemented!() }
}

// ---------- errors ----------
pub struct OverflowError { pub _e: Ghost<int> }
pub struct DivideByZeroError { pub _e: Ghost<int> }
pub struct StdError { pub _e: Ghost<int> }
// Result::unwrap wants E: Debug (only used to print the panic message; ignored by the verifier)
#[verifier::external]
impl core::fmt::Debug for StdError { fn fmt(&self, f: &mut core::fmt::Formatter<'_>) -> core::fmt::Result { Ok(()) } }
#[verifier::external]
impl core::fmt::Debug for OverflowError { fn fmt(&self, f: &mut core::fmt::Formatter<'_>) -> core::fmt::Result { Ok(()) } }
#[verifier::external]
impl core::fmt::Debug for DivideByZeroError { fn fmt(&self, f: &mut core::fmt::Formatter<'_>) -> core::fmt::Result { Ok(()) } }
pub type StdResult<T> = Result<T, StdError>;

impl OverflowError {
    #[verifier::external_body]
    pub fn erased() -> (r: OverflowError) { unimplemented!() }
}
impl DivideByZeroError {
    #[verifier::external_body]
    pub fn erased() -> (r: DivideByZeroError) { unimplemented!() }
}
impl StdError {
    #[verifier::external_body]
    pub fn generic_err<S: StrLike>(msg: S) -> (r: StdError) { unimplemented!() }
    #[verifier::external_body]
    pub fn erased() -> (r: StdError) { unimplemented!() }
}
impl From<OverflowError> for StdError {
    #[verifier::external_body]
    fn from(e: OverflowError) -> (r: StdError) { unimplemented!() }
}
impl vstd::std_specs::convert::FromSpecImpl<OverflowError> for StdError {
    open spec fn obeys_from_spec() -> bool { false }
    uninterp spec fn from_spec(v: OverflowError) -> Self;
}
impl From<DivideByZeroError> for StdError {
    #[verifier::external_body]
    fn from(e: DivideByZeroError) -> (r: StdError) { unimplemented!() }
}
impl vstd::std_specs::convert::FromSpecImpl<DivideByZeroError> for StdError {
    open spec fn obeys_from_spec() -> bool { false }
    uninterp spec fn from_spec(v: DivideByZeroError) -> Self;
}

pub trait MapErrErased<T> {
    fn map_err_erased(self) -> (r: StdResult<T>)
        ensures r is Ok <==> self.mee_is_ok(), r is Ok ==> r->Ok_0 == self.mee_value();
    spec fn mee_is_ok(&self) -> bool;
    spec fn mee_value(&self) -> T;
}
impl<T, E> MapErrErased<T> for Result<T, E> {
    open spec fn mee_is_ok(&self) -> bool { self is Ok }
    open spec fn mee_value(&self) -> T { self->Ok_0 }
    #[verifier::external_body]
    fn map_err_erased(self) -> (r: StdResult<T>) { unimplemented!() }
}

// ---------- Uint128 (T1: u128 wrapper; checked_* Err exactly on overflow / zero divisor) ----------
#[derive(Clone, Copy, Debug, PartialEq, Eq)]
pub struct Uint128(pub u128);

pub const U128_MAX: u128 = 0xffff_ffff_ffff_ffff_ffff_ffff_ffff_ffff;

impl Uint128 {
    // <Uint128 as FromStr>::from_str: decimal text of a u128 (T1)
    #[verifier::external_body]
    pub fn from_str(s: &str) -> (r: Result<Uint128, StdError>)
        ensures r is Ok <==> (str_uint(s@) is Some && str_uint(s@)->Some_0 <= u128::MAX), r is Ok ==> r->Ok_0.0 == str_uint(s@)->Some_0,
    { unimplemented!() }

    pub const MAX: Uint128 = Uint128(0xffff_ffff_ffff_ffff_ffff_ffff_ffff_ffff);

    pub open spec fn v(self) -> int { self.0 as int }

    pub const fn new(v: u128) -> (r: Uint128)
        ensures r.0 == v,
    { Uint128(v) }

    pub const fn zero() -> (r: Uint128)
        ensures r.0 == 0,
    { Uint128(0) }

    pub const fn u128(&self) -> (r: u128)
        ensures r == self.0,
    { self.0 }

    pub const fn is_zero(&self) -> (r: bool)
        ensures r == (self.0 == 0),
    { self.0 == 0 }

    #[verifier::external_body]
    pub fn checked_add(self, other: Uint128) -> (r: Result<Uint128, OverflowError>)
        ensures
            r is Ok <==> self.0 + other.0 <= U128_MAX,
            r is Ok ==> r->Ok_0.0 == self.0 + other.0,
    { unimplemented!() }

    #[verifier::external_body]
    pub fn checked_sub(self, other: Uint128) -> (r: Result<Uint128, OverflowError>)
        ensures
            r is Ok <==> self.0 >= other.0,
            r is Ok ==> r->Ok_0.0 == self.0 - other.0,
    { unimplemented!() }

    #[verifier::external_body]
    pub fn checked_mul(self, other: Uint128) -> (r: Result<Uint128, OverflowError>)
        ensures
            r is Ok <==> self.0 * other.0 <= U128_MAX,
            r is Ok ==> r->Ok_0.0 == self.0 * other.0,
    { unimplemented!() }

    #[verifier::external_body]
    pub fn checked_div(self, other: Uint128) -> (r: Result<Uint128, DivideByZeroError>)
        ensures
            r is Ok <==> other.0 != 0,
            r is Ok ==> r->Ok_0.0 == self.0 as int / other.0 as int,
    { unimplemented!() }

    #[verifier::external_body]
    pub fn to_string(&self) -> (r: String)
        ensures r@ == uint_str(self.0 as int),
    { unimplemented!() }

    #[verifier::external_body]
    pub fn checked_rem(self, other: Uint128) -> (r: Result<Uint128, DivideByZeroError>)
        ensures
            r is Ok <==> other.0 != 0,
            r is Ok ==> r->Ok_0.0 == self.0 as int % other.0 as int,
    { unimplemented!() }

    #[verifier::external_body]
    pub fn saturating_sub(self, other: Uint128) -> (r: Uint128)
        ensures r.0 == (if self.0 >= other.0 { self.0 - other.0 } else { 0 }),
    { unimplemented!() }

    #[verifier::external_body]
    pub fn saturating_add(self, other: Uint128) -> (r: Uint128)
        ensures r.0 == (if self.0 + other.0 <= U128_MAX { self.0 + other.0 } else { U128_MAX as int }),
    { unimplemented!() }

    #[verifier::external_body]
    pub fn abs_diff(self, other: Uint128) -> (r: Uint128)
        ensures r.0 == (if self.0 >= other.0 { self.0 - other.0 } else { other.0 - self.0 }),
    { unimplemented!() }

    #[verifier::external_body]
    pub fn min(self, other: Uint128) -> (r: Uint128)
        ensures r.0 == (if self.0 <= other.0 { self.0 } else { other.0 }),
    { unimplemented!() }

    #[verifier::external_body]
    pub fn max(self, other: Uint128) -> (r: Uint128)
        ensures r.0 == (if self.0 >= other.0 { self.0 } else { other.0 }),
    { unimplemented!() }

    #[verifier::external_body]
    pub fn cmp(&self, other: &Uint128) -> (r: core::cmp::Ordering)
        ensures
            r is Less <==> self.0 < other.0,
            r is Equal <==> self.0 == other.0,
            r is Greater <==> self.0 > other.0,
    { unimplemented!() }
}

impl vstd::std_specs::cmp::PartialOrdSpecImpl for Uint128 {
    open spec fn obeys_partial_cmp_spec() -> bool { true }
    open spec fn partial_cmp_spec(&self, other: &Uint128) -> Option<core::cmp::Ordering> {
        if self.0 < other.0 { Some(core::cmp::Ordering::Less) }
        else if self.0 == other.0 { Some(core::cmp::Ordering::Equal) }
        else { Some(core::cmp::Ordering::Greater) }
    }
}
impl PartialOrd for Uint128 {
    fn partial_cmp(&self, other: &Uint128) -> (r: Option<core::cmp::Ordering>) {
        if self.0 < other.0 { Some(core::cmp::Ordering::Less) }
        else if self.0 == other.0 { Some(core::cmp::Ordering::Equal) }
        else { Some(core::cmp::Ordering::Greater) }
    }
}

impl vstd::std_specs::cmp::OrdSpecImpl for Uint128 {
    open spec fn obeys_cmp_spec() -> bool { true }
    open spec fn cmp_spec(&self, other: &Uint128) -> core::cmp::Ordering {
        if self.0 < other.0 { core::cmp::Ordering::Less }
        else if self.0 == other.0 { core::cmp::Ordering::Equal }
        else { core::cmp::Ordering::Greater }
    }
}
impl Ord for Uint128 {
    fn cmp(&self, other: &Uint128) -> (r: core::cmp::Ordering) {
        if self.0 < other.0 { core::cmp::Ordering::Less }
        else if self.0 == other.0 { core::cmp::Ordering::Equal }
        else { core::cmp::Ordering::Greater }
    }
}
// core::cmp::min / max on any totally ordered type whose ordering has a spec (std: `min` returns the first argument on a tie, `max` the second)
#[verifier::allow(undeclared_external_trait)]
pub assume_specification<T> [std::cmp::min] (a: T, b: T) -> (r: T)
    where T: std::cmp::Ord + std::marker::Destruct,
    ensures T::obeys_cmp_spec() ==> r == (if (a.cmp_spec(&b) is Greater) { b } else { a });
#[verifier::allow(undeclared_external_trait)]
pub assume_specification<T> [std::cmp::max] (a: T, b: T) -> (r: T)
    where T: std::cmp::Ord + std::marker::Destruct,
    ensures T::obeys_cmp_spec() ==> r == (if (a.cmp_spec(&b) is Greater) { a } else { b });

impl From<u128> for Uint128 {
    #[verifier::external_body]
    fn from(v: u128) -> (r: Uint128) { Uint128(v) }
}
impl vstd::std_specs::convert::FromSpecImpl<u128> for Uint128 {
    open spec fn obeys_from_spec() -> bool { true }
    open spec fn from_spec(v: u128) -> Self { Uint128(v) }
}
impl From<u64> for Uint128 {
    #[verifier::external_body]
    fn from(v: u64) -> (r: Uint128) { Uint128(v as u128) }
}
impl vstd::std_specs::convert::FromSpecImpl<u64> for Uint128 {
    open spec fn obeys_from_spec() -> bool { true }
    open spec fn from_spec(v: u64) -> Self { Uint128(v as u128) }
}
impl From<u32> for Uint128 {
    #[verifier::external_body]
    fn from(v: u32) -> (r: Uint128) { Uint128(v as u128) }
}
impl vstd::std_specs::convert::FromSpecImpl<u32> for Uint128 {
    open spec fn obeys_from_spec() -> bool { true }
    open spec fn from_spec(v: u32) -> Self { Uint128(v as u128) }
}
impl From<u16> for Uint128 {
    #[verifier::external_body]
    fn from(v: u16) -> (r: Uint128) { Uint128(v as u128) }
}
impl vstd::std_specs::convert::FromSpecImpl<u16> for Uint128 {
    open spec fn obeys_from_spec() -> bool { true }
    open spec fn from_spec(v: u16) -> Self { Uint128(v as u128) }
}
impl From<u8> for Uint128 {
    #[verifier::external_body]
    fn from(v: u8) -> (r: Uint128) { Uint128(v as u128) }
}
impl vstd::std_specs::convert::FromSpecImpl<u8> for Uint128 {
    open spec fn obeys_from_spec() -> bool { true }
    open spec fn from_spec(v: u8) -> Self { Uint128(v as u128) }
}

// panicking operators: partial-correctness contracts (no precondition; "if it returns, no overflow")
impl vstd::std_specs::ops::AddSpecImpl<Uint128> for Uint128 {
    open spec fn obeys_add_spec() -> bool { true }
    open spec fn add_req(self, rhs: Uint128) -> bool { UINT_OPS_TOTAL() ==> self.0 + rhs.0 <= U128_MAX }
    open spec fn add_spec(self, rhs: Uint128) -> Uint128 { Uint128((self.0 + rhs.0) as u128) }
}
impl core::ops::Add for Uint128 {
    type Output = Uint128;
    #[verifier::external_body]
    fn add(self, rhs: Uint128) -> (r: Uint128)
        ensures self.0 + rhs.0 <= U128_MAX,
    { unimplemented!() }
}
impl vstd::std_specs::ops::SubSpecImpl<Uint128> for Uint128 {
    open spec fn obeys_sub_spec() -> bool { true }
    open spec fn sub_req(self, rhs: Uint128) -> bool { UINT_OPS_TOTAL() ==> self.0 >= rhs.0 }
    open spec fn sub_spec(self, rhs: Uint128) -> Uint128 { Uint128((self.0 - rhs.0) as u128) }
}
impl core::ops::Sub for Uint128 {
    type Output = Uint128;
    #[verifier::external_body]
    fn sub(self, rhs: Uint128) -> (r: Uint128)
        ensures self.0 >= rhs.0,
    { unimplemented!() }
}
impl vstd::std_specs::ops::MulSpecImpl<Uint128> for Uint128 {
    open spec fn obeys_mul_spec() -> bool { true }
    open spec fn mul_req(self, rhs: Uint128) -> bool { UINT_OPS_TOTAL() ==> self.0 * rhs.0 <= U128_MAX }
    open spec fn mul_spec(self, rhs: Uint128) -> Uint128 { Uint128((self.0 * rhs.0) as u128) }
}
impl core::ops::Mul for Uint128 {
    type Output = Uint128;
    #[verifier::external_body]
    fn mul(self, rhs: Uint128) -> (r: Uint128)
        ensures self.0 * rhs.0 <= U128_MAX,
    { unimplemented!() }
}
impl vstd::std_specs::ops::DivSpecImpl<Uint128> for Uint128 {
    open spec fn obeys_div_spec() -> bool { true }
    open spec fn div_req(self, rhs: Uint128) -> bool { UINT_OPS_TOTAL() ==> rhs.0 != 0 }
    open spec fn div_spec(self, rhs: Uint128) -> Uint128 { Uint128((self.0 as int / rhs.0 as int) as u128) }
}
impl core::ops::Div for Uint128 {
    type Output = Uint128;
    #[verifier::external_body]
    fn div(self, rhs: Uint128) -> (r: Uint128)
        ensures rhs.0 != 0,
    { unimplemented!() }
}

impl vstd::std_specs::ops::RemSpecImpl<Uint128> for Uint128 {
    open spec fn obeys_rem_spec() -> bool { true }
    open spec fn rem_req(self, rhs: Uint128) -> bool { UINT_OPS_TOTAL() ==> rhs.0 != 0 }
    open spec fn rem_spec(self, rhs: Uint128) -> Uint128 { Uint128((self.0 as int % rhs.0 as int) as u128) }
}
impl core::ops::Rem for Uint128 {
    type Output = Uint128;
    #[verifier::external_body]
    fn rem(self, rhs: Uint128) -> (r: Uint128)
        ensures rhs.0 != 0,
    { unimplemented!() }
}

// ---------- Addr ----------
pub struct Addr { pub s: Ghost<Seq<char>> }

impl View for Addr {
    type V = Seq<char>;
    open spec fn view(&self) -> Seq<char> { self.s@ }
}

impl Addr {
    #[verifier::external_body]
    pub fn unchecked<S: StrLike>(s: S) -> (r: Addr)
        ensures r@ == s.sview(),
    { unimplemented!() }

    #[verifier::external_body]
    pub fn to_string(&self) -> (r: String)
        ensures r@ == self@,
    { unimplemented!() }

    #[verifier::external_body]
    pub fn into_string(self) -> (r: String)
        ensures r@ == self@,
    { unimplemented!() }

    #[verifier::external_body]
    pub fn as_ref(&self) -> (r: &str)
        ensures r@ == self@,
    { unimplemented!() }

    #[verifier::external_body]
    pub fn as_str(&self) -> (r: &str)
        ensures r@ == self@,
    { unimplemented!() }
}
impl Clone for Addr {
    #[verifier::external_body]
    fn clone(&self) -> (r: Addr)
        ensures r == *self,
    { unimplemented!() }
}
impl vstd::std_specs::cmp::PartialEqSpecImpl for Addr {
    open spec fn obeys_eq_spec() -> bool { true }
    open spec fn eq_spec(&self, other: &Addr) -> bool { self@ == other@ }
}
impl PartialEq for Addr {
    #[verifier::external_body]
    fn eq(&self, other: &Addr) -> (r: bool) { unimplemented!() }
}
impl Eq for Addr {}
// cosmwasm_std: `impl PartialEq<String> for Addr` (text comparison)
impl vstd::std_specs::cmp::PartialEqSpecImpl<String> for Addr {
    open spec fn obeys_eq_spec() -> bool { true }
    open spec fn eq_spec(&self, other: &String) -> bool { self@ == other@ }
}
impl PartialEq<String> for Addr {
    #[verifier::external_body]
    fn eq(&self, other: &String) -> (r: bool) { unimplemented!() }
}

// cosmwasm_std derives Ord for Addr: the order of the address text; only "it is a total order whose Equal is equality" is assumed
pub uninterp spec fn text_cmp(a: Seq<char>, b: Seq<char>) -> core::cmp::Ordering;
#[verifier::external_body]
pub broadcast proof fn axiom_text_cmp_total(a: Seq<char>, b: Seq<char>)
    ensures (#[trigger] text_cmp(a, b) == core::cmp::Ordering::Equal) <==> a == b,
        (text_cmp(a, b) == core::cmp::Ordering::Less) <==> (text_cmp(b, a) == core::cmp::Ordering::Greater),
{}
impl vstd::std_specs::cmp::PartialOrdSpecImpl for Addr {
    open spec fn obeys_partial_cmp_spec() -> bool { true }
    open spec fn partial_cmp_spec(&self, other: &Addr) -> Option<core::cmp::Ordering> { Some(text_cmp(self@, other@)) }
}
impl PartialOrd for Addr {
    #[verifier::external_body]
    fn partial_cmp(&self, other: &Addr) -> (r: Option<core::cmp::Ordering>) { unimplemented!() }
}
impl vstd::std_specs::cmp::OrdSpecImpl for Addr {
    open spec fn obeys_cmp_spec() -> bool { true }
    open spec fn cmp_spec(&self, other: &Addr) -> core::cmp::Ordering { text_cmp(self@, other@) }
}
impl Ord for Addr {
    #[verifier::external_body]
    fn cmp(&self, other: &Addr) -> (r: core::cmp::Ordering) { unimplemented!() }
}

// ---------- std slice methods vstd does not cover (T1: the documented behaviour of core/alloc) ----------
pub assume_specification<T: PartialEq>[ <[T]>::contains ](s: &[T], x: &T) -> (r: bool)
    ensures T::obeys_eq_spec() ==> r == (exists|i: int| 0 <= i < s@.len() && (#[trigger] s@[i]).eq_spec(x));
pub assume_specification<T: Clone>[ <[T]>::to_vec ](s: &[T]) -> (r: Vec<T>)
    ensures r@.len() == s@.len(), forall|i: int| 0 <= i < s@.len() ==> cloned::<T>(#[trigger] s@[i], r@[i]);
pub open spec fn slice_sorted<T: Ord>(s: Seq<T>) -> bool {
    forall|i: int, j: int| 0 <= i < j < s.len() ==> #[trigger] s[i].cmp_spec(&s[j]) != core::cmp::Ordering::Greater
}
// binary_search: exact on a slice sorted by Ord; on an unsorted slice std promises only that an Ok index holds an equal element
pub assume_specification<T: Ord>[ <[T]>::binary_search ](s: &[T], x: &T) -> (r: Result<usize, usize>)
    ensures
        r is Ok ==> r->Ok_0 < s@.len() && (T::obeys_cmp_spec() ==> s@[r->Ok_0 as int].cmp_spec(x) == core::cmp::Ordering::Equal),
        r is Err ==> r->Err_0 <= s@.len(),
        T::obeys_cmp_spec() && slice_sorted(s@) && r is Err ==> (forall|i: int| 0 <= i < s@.len() ==> (#[trigger] s@[i]).cmp_spec(x) != core::cmp::Ordering::Equal)
            && (forall|i: int| 0 <= i < r->Err_0 ==> (#[trigger] s@[i]).cmp_spec(x) == core::cmp::Ordering::Less)
            && (forall|i: int| r->Err_0 <= i < s@.len() ==> (#[trigger] s@[i]).cmp_spec(x) == core::cmp::Ordering::Greater);

// membership-level description of adding one element to a list, and the two std ways of doing it
pub open spec fn seq_gains<T>(o: Seq<T>, n: Seq<T>, x: T) -> bool {
    &&& n.len() == o.len() + 1
    &&& n.contains(x)
    &&& forall|a: T| o.contains(a) ==> #[trigger] n.contains(a)
}
pub broadcast proof fn lemma_push_gains<T>(o: Seq<T>, x: T)
    ensures seq_gains(o, #[trigger] o.push(x), x),
{
    let n = o.push(x);
    assert(n[o.len() as int] == x);
    assert forall|a: T| o.contains(a) implies #[trigger] n.contains(a) by {
        let k = choose|k: int| 0 <= k < o.len() && o[k] == a;
        assert(n[k] == a);
    }
}
pub broadcast proof fn lemma_insert_gains<T>(o: Seq<T>, i: int, x: T)
    requires 0 <= i <= o.len(),
    ensures seq_gains(o, #[trigger] o.insert(i, x), x),
{
    let n = o.insert(i, x);
    assert(n[i] == x);
    assert forall|a: T| o.contains(a) implies #[trigger] n.contains(a) by {
        let k = choose|k: int| 0 <= k < o.len() && o[k] == a;
        if k < i { assert(n[k] == a); } else { assert(n[k + 1] == a); }
    }
}

pub proof fn lemma_addr_ext(a: Addr, b: Addr)
    ensures a@ == b@ <==> a == b,
{}

// ---------- block / env / message info ----------
// cosmwasm_std::Timestamp stores NANOSECONDS (a Uint64). Model: nanos == secs * 10^9 + sub with sub < 10^9, so `seconds()` is exact and code that
// looks at the sub-second part (nanos(), subsec_nanos(), comparisons of whole Timestamps) is not confused with code that uses whole seconds.
#[derive(Clone, Copy, Debug, PartialEq, Eq)]
pub struct Timestamp { pub secs: u64, pub sub: u64 }
pub open spec fn ts_secs(s: u64) -> Timestamp { Timestamp { secs: s, sub: 0 } }
pub open spec fn ts_cmp(a: int, b: int) -> core::cmp::Ordering {
    if a < b { core::cmp::Ordering::Less } else if a == b { core::cmp::Ordering::Equal } else { core::cmp::Ordering::Greater }
}

impl Timestamp {
    pub open spec fn nanos_spec(self) -> int { self.secs * 1_000_000_000 + self.sub }

    pub fn seconds(&self) -> (r: u64)
        ensures r == self.secs,
    { self.secs }

    #[verifier::external_body]
    pub fn subsec_nanos(&self) -> (r: u64)
        ensures r == self.sub, r < 1_000_000_000,
    { unimplemented!() }

    #[verifier::external_body]
    pub fn nanos(&self) -> (r: u64)
        ensures r as int == self.nanos_spec(), self.sub < 1_000_000_000,
    { unimplemented!() }

    #[verifier::external_body]
    pub fn plus_seconds(&self, addition: u64) -> (r: Timestamp)
        ensures self.secs + addition <= u64::MAX, r.secs == self.secs + addition, r.sub == self.sub,
    { unimplemented!() }

    // aborts when the result would be negative (the real code subtracts Uint64 nanoseconds)
    #[verifier::external_body]
    pub fn minus_seconds(&self, subtrahend: u64) -> (r: Timestamp)
        requires UINT_OPS_TOTAL() ==> self.secs >= subtrahend,
        ensures self.secs >= subtrahend, r.secs == self.secs - subtrahend, r.sub == self.sub,
    { unimplemented!() }

    #[verifier::external_body]
    pub fn plus_nanos(&self, addition: u64) -> (r: Timestamp)
        requires UINT_OPS_TOTAL() ==> self.nanos_spec() + addition <= u64::MAX,
        ensures r.nanos_spec() == self.nanos_spec() + addition, r.sub < 1_000_000_000, self.sub < 1_000_000_000,
    { unimplemented!() }

    #[verifier::external_body]
    pub fn minus_nanos(&self, subtrahend: u64) -> (r: Timestamp)
        requires UINT_OPS_TOTAL() ==> self.nanos_spec() >= subtrahend,
        ensures r.nanos_spec() == self.nanos_spec() - subtrahend, r.sub < 1_000_000_000, self.sub < 1_000_000_000,
    { unimplemented!() }

    pub fn from_seconds(s: u64) -> (r: Timestamp)
        ensures r == ts_secs(s),
    { Timestamp { secs: s, sub: 0 } }

    #[verifier::external_body]
    pub fn from_nanos(n: u64) -> (r: Timestamp)
        ensures r.secs == n / 1_000_000_000, r.sub == n % 1_000_000_000,
    { unimplemented!() }
}
impl Default for Timestamp {
    fn default() -> (r: Timestamp)
        ensures r == ts_secs(0),
    { Timestamp { secs: 0, sub: 0 } }
}
// whole Timestamps compare by their nanoseconds
impl vstd::std_specs::cmp::PartialOrdSpecImpl for Timestamp {
    open spec fn obeys_partial_cmp_spec() -> bool { true }
    open spec fn partial_cmp_spec(&self, other: &Timestamp) -> Option<core::cmp::Ordering> {
        Some(ts_cmp(self.nanos_spec(), other.nanos_spec()))
    }
}
impl std::cmp::PartialOrd for Timestamp {
    #[verifier::external_body]
    fn partial_cmp(&self, other: &Timestamp) -> (r: Option<core::cmp::Ordering>)
        ensures r == Some(ts_cmp(self.nanos_spec(), other.nanos_spec())),
    { unimplemented!() }
}

#[derive(Clone, Copy, Debug, PartialEq, Eq)]
pub struct BlockInfo { pub height: u64, pub time: Timestamp }

pub struct ContractInfo { pub address: Addr }
impl Clone for ContractInfo {
    #[verifier::external_body]
    fn clone(&self) -> (r: ContractInfo) ensures r == *self, { unimplemented!() }
}

pub struct Env { pub block: BlockInfo, pub contract: ContractInfo }
impl Clone for Env {
    #[verifier::external_body]
    fn clone(&self) -> (r: Env) ensures r == *self, { unimplemented!() }
}

pub struct Coin { pub denom: String, pub amount: Uint128 }
impl Clone for Coin {
    #[verifier::external_body]
    fn clone(&self) -> (r: Coin) ensures r == *self, { unimplemented!() }
}

pub struct MessageInfo { pub sender: Addr, pub funds: Vec<Coin> }
impl Clone for MessageInfo {
    #[verifier::external_body]
    fn clone(&self) -> (r: MessageInfo) ensures r == *self, { unimplemented!() }
}


pub uninterp spec fn uint_str(v: int) -> Seq<char>;   // decimal rendering, injective (axiom below)
pub uninterp spec fn str_uint(s: Seq<char>) -> Option<int>;

#[verifier::external_body]
pub broadcast proof fn axiom_uint_str_inj(a: int, b: int)
    ensures #[trigger] uint_str(a) == #[trigger] uint_str(b) ==> a == b,
{}

#[verifier::external_body]
pub broadcast proof fn axiom_str_uint_roundtrip(a: int)
    requires a >= 0,
    ensures #[trigger] str_uint(uint_str(a)) == Some(a),
{}

// decimal rendering of a natural number is a non-empty digit string (so it never starts with the sign character and its first character is one byte)
#[verifier::external_body]
pub proof fn axiom_uint_str_shape(a: int)
    requires a >= 0,
    ensures uint_str(a).len() >= 1, '0' <= uint_str(a)[0] <= '9',
{}
// a `str` is determined by its characters (assumption about core: `str` equality is equality of the UTF-8 contents)
#[verifier::external_body]
pub proof fn axiom_str_ext()
    ensures forall|a: &str, b: &str| #![trigger a@, b@] a@ == b@ ==> a == b,
{}
// ---------- byte slicing / parsing of `str` used by Integer::from_str (T6: std string primitives) ----------
pub open spec fn is_one_byte(c: char) -> bool { (c as u32) < 128 }
// `&s[..1]`: byte slicing; it returns (does not abort) only when byte offset 1 is a character boundary, i.e. the first character is one byte
#[verifier::external_body]
pub fn str_first_byte(s: &str) -> (r: &str)
    requires UINT_OPS_TOTAL() ==> s@.len() >= 1 && is_one_byte(s@[0]),
    ensures s@.len() >= 1, is_one_byte(s@[0]), r@ == s@.subrange(0, 1),
{ unimplemented!() }
// `&s[1..]`
#[verifier::external_body]
pub fn str_after_first_byte(s: &str) -> (r: &str)
    requires UINT_OPS_TOTAL() ==> s@.len() >= 1 && is_one_byte(s@[0]),
    ensures s@.len() >= 1, is_one_byte(s@[0]), r@ == s@.subrange(1, s@.len() as int),
{ unimplemented!() }
pub open spec fn parse_u128_spec(s: Seq<char>) -> Option<int> {
    if str_uint(s) is Some && str_uint(s)->Some_0 <= U128_MAX { str_uint(s) } else { None }
}
pub struct ParseIntError {}
// `s.parse::<u128>()` (core::num): the same decimal reading as Uint128::from_str above
#[verifier::external_body]
pub fn str_parse_u128(s: &str) -> (r: Result<u128, ParseIntError>)
    ensures r is Ok <==> parse_u128_spec(s@) is Some, r is Ok ==> r->Ok_0 as int == parse_u128_spec(s@)->Some_0,
{ unimplemented!() }

// ---------- Into<Uint128> (used by Integer::new_positive / new_negative) ----------
pub closed spec fn into_u128<T: Into<Uint128>>(v: T) -> Uint128 { <T as IntoSpec<Uint128>>::into_spec(v) }
pub closed spec fn into_u128_ok<T: Into<Uint128>>(v: T) -> bool { <T as IntoSpec<Uint128>>::obeys_into_spec() }
pub proof fn lemma_into_u128_def<T: Into<Uint128>>()
    ensures
        forall|v: T| #[trigger] into_u128_ok(v) == <T as IntoSpec<Uint128>>::obeys_into_spec(),
        forall|v: T| #[trigger] into_u128(v) == <T as IntoSpec<Uint128>>::into_spec(v),
{}
// std's reflexive `impl<T> From<T> for T` is the identity (assumption about core)
#[verifier::external_body]
pub broadcast proof fn axiom_into_u128_refl_ok(v: Uint128)
    ensures #[trigger] into_u128_ok::<Uint128>(v),
{}
#[verifier::external_body]
pub broadcast proof fn axiom_into_u128_refl(v: Uint128)
    ensures #[trigger] into_u128::<Uint128>(v) == v,
{}
pub broadcast proof fn lemma_into_u128_from_u128_ok(v: u128) ensures #[trigger] into_u128_ok::<u128>(v), {}
pub broadcast proof fn lemma_into_u128_from_u128(v: u128) ensures #[trigger] into_u128::<u128>(v) == Uint128(v), {}
pub broadcast proof fn lemma_into_u128_from_u64_ok(v: u64) ensures #[trigger] into_u128_ok::<u64>(v), {}
pub broadcast proof fn lemma_into_u128_from_u64(v: u64) ensures #[trigger] into_u128::<u64>(v) == Uint128(v as u128), {}
pub broadcast proof fn lemma_into_u128_from_u32_ok(v: u32) ensures #[trigger] into_u128_ok::<u32>(v), {}
pub broadcast proof fn lemma_into_u128_from_u32(v: u32) ensures #[trigger] into_u128::<u32>(v) == Uint128(v as u128), {}
pub broadcast proof fn lemma_into_u128_from_u16_ok(v: u16) ensures #[trigger] into_u128_ok::<u16>(v), {}
pub broadcast proof fn lemma_into_u128_from_u16(v: u16) ensures #[trigger] into_u128::<u16>(v) == Uint128(v as u128), {}
pub broadcast proof fn lemma_into_u128_from_u8_ok(v: u8) ensures #[trigger] into_u128_ok::<u8>(v), {}
pub broadcast proof fn lemma_into_u128_from_u8(v: u8) ensures #[trigger] into_u128::<u8>(v) == Uint128(v as u128), {}

pub broadcast group group_base {
    axiom_text_cmp_total, lemma_push_gains, lemma_insert_gains,
    axiom_uint_str_inj, axiom_str_uint_roundtrip, axiom_display_u64, axiom_display_string,
    axiom_into_u128_refl_ok, axiom_into_u128_refl,
    lemma_into_u128_from_u128_ok, lemma_into_u128_from_u128,
    lemma_into_u128_from_u64_ok, lemma_into_u128_from_u64,
    lemma_into_u128_from_u32_ok, lemma_into_u128_from_u32,
    lemma_into_u128_from_u16_ok, lemma_into_u128_from_u16,
    lemma_into_u128_from_u8_ok, lemma_into_u128_from_u8,
}
unsafe impl Structural for Uint128 {}
unsafe impl Structural for Timestamp {}
unsafe impl Structural for BlockInfo {}
pub open spec fn UINT_OPS_TOTAL() -> bool { crate::UINT_OPS_TOTAL_MODE() }
} // mod base
