// ===== shim/feepool_store.rs — fee pool: typed cells (T4), Admin (T3), queries (T5e), std helpers (T6) =====
pub ghost struct Store {
    pub token_list: Option<Seq<AssetInfo>>,   // cw_storage_plus::Item<Vec<AssetInfo>>("token-list")
    pub admin: Option<Addr>,
    pub config: Option<Config>,   // cosmwasm_storage singleton KEY_CONFIG
}
pub ghost struct World { pub _w: int }

#[verifier::external_body]
pub fn singleton_load__KEY_CONFIG(storage: &dyn Storage) -> (r: StdResult<Config>)
    ensures
        r is Ok <==> storage.view().config is Some,   // `load` fails exactly when the cell is empty; a stored value always deserialises (T4)
        r is Ok ==> r->Ok_0 == storage.view().config->Some_0,
{ unimplemented!() }
#[verifier::external_body]
pub fn singleton_may_load__KEY_CONFIG(storage: &dyn Storage) -> (r: StdResult<Option<Config>>)
    ensures r is Ok, r->Ok_0 == storage.view().config,
{ unimplemented!() }
#[verifier::external_body]
pub fn singleton_save__KEY_CONFIG(storage: &mut dyn Storage, v: &Config) -> (r: StdResult<()>)
    ensures
        r is Ok,   // serde serialisation of these plain types cannot fail (T4)
        r is Ok ==> final(storage).view() == (Store { config: Some(*v), ..old(storage).view() }),
        r is Err ==> final(storage).view() == old(storage).view(),
{ unimplemented!() }
#[verifier::external_body]
pub fn item_may_load__TOKEN_LIST(storage: &dyn Storage) -> (r: StdResult<Option<Vec<AssetInfo>>>)
    ensures
        r is Ok,   // a value stored by this contract always deserialises (T4)
        r is Ok ==> (r->Ok_0 is Some <==> storage.view().token_list is Some),
        r is Ok && r->Ok_0 is Some ==> r->Ok_0->Some_0@ == storage.view().token_list->Some_0,
{ unimplemented!() }
#[verifier::external_body]
pub fn item_save__TOKEN_LIST(storage: &mut dyn Storage, v: &Vec<AssetInfo>) -> (r: StdResult<()>)
    ensures
        r is Ok,   // serde serialisation of these plain types cannot fail (T4)
        r is Ok ==> final(storage).view() == (Store { token_list: Some(v@), ..old(storage).view() }),
        r is Err ==> final(storage).view() == old(storage).view(),
{ unimplemented!() }

// derived PartialEq of AssetInfo: same variant and same text
pub open spec fn asset_eq(a: AssetInfo, b: AssetInfo) -> bool {
    match (a, b) {
        (AssetInfo::Token { contract_addr: x }, AssetInfo::Token { contract_addr: y }) => x@ == y@,
        (AssetInfo::NativeToken { denom: x }, AssetInfo::NativeToken { denom: y }) => x@ == y@,
        _ => false,
    }
}
pub open spec fn list_has(l: Seq<AssetInfo>, t: AssetInfo) -> bool { exists|i: int| 0 <= i < l.len() && asset_eq(#[trigger] l[i], t) }
#[verifier::external_body]
pub fn vec_position_of_asset(v: &Vec<AssetInfo>, x: &AssetInfo) -> (r: usize)
    ensures r < v@.len(), asset_eq(v@[r as int], *x), forall|j: int| 0 <= j < r ==> !asset_eq(v@[j], *x),
{ unimplemented!() }

pub struct Admin {}
pub struct AdminError { pub _e: Ghost<int> }
impl Admin {
    pub const fn new(ns: &str) -> (r: Admin) { Admin {} }
    #[verifier::external_body]
    pub fn is_admin(&self, deps: Deps, caller: &Addr) -> (r: StdResult<bool>)
        ensures r is Ok, r->Ok_0 == (deps.storage.view().admin == Some(*caller)),   // a typed-cell load of a present or absent value never fails (T3/T4)
    { unimplemented!() }
    #[verifier::external_body]
    pub fn get(&self, deps: Deps) -> (r: StdResult<Option<Addr>>)
        ensures r is Ok, r->Ok_0 == deps.storage.view().admin,
    { unimplemented!() }
    #[verifier::external_body]
    pub fn set(&self, deps: DepsMut, admin: Option<Addr>) -> (r: StdResult<()>)
        ensures
            r is Ok ==> final(deps.storage).view() == (Store { admin: admin, ..old(deps.storage).view() }),
            r is Err ==> final(deps.storage).view() == old(deps.storage).view(),
    { unimplemented!() }
    #[verifier::external_body]
    pub fn execute_update_admin(&self, deps: DepsMut, info: MessageInfo, new_admin: Option<Addr>) -> (r: Result<Response, AdminError>)
        ensures
            r is Ok ==> old(deps.storage).view().admin == Some(info.sender),
            r is Ok ==> final(deps.storage).view() == (Store { admin: new_admin, ..old(deps.storage).view() }),
            r is Ok ==> r->Ok_0.messages@.len() == 0,
            r is Err ==> final(deps.storage).view() == old(deps.storage).view(),
    { unimplemented!() }
}
// cosmwasm_std::BalanceResponse / cw20::BalanceResponse / cw20::Cw20QueryMsg (dependency types)
pub struct CW20BalanceResponse { pub balance: Uint128 }
pub enum Cw20QueryMsg { Balance { address: String } }
pub open spec fn q_token_balance(q: QuerierWrapper, token: AssetInfo, account: Seq<char>) -> Uint128 {
    match token {
        AssetInfo::NativeToken { denom } => query_answer::<BalanceResponse>(q, QueryView::BankBalance { address: account, denom: denom@ }).amount.amount,
        AssetInfo::Token { contract_addr } => query_answer::<CW20BalanceResponse>(q, QueryView::Smart { addr: contract_addr@, payload: Payload::Cw20QBalance { address: account } }).balance,
    }
}
