// ===== shim/ctx.rs — Storage / Deps / DepsMut (assumed, T2/T4/T5e) =====
// `Store` (the typed view of this contract's storage) and `World` (what cross-contract queries see)
// are defined by the unit's own store shim.

pub trait Storage {
    spec fn view(&self) -> Store;
}
// cw2::set_contract_version (dependency): writes cw2's own `contract_info` item only, which no contract of the repository reads;
// it is not part of the modelled store
#[verifier::external_body]
pub fn set_contract_version(storage: &mut dyn Storage, name: &str, version: &str) -> (r: StdResult<()>)
    ensures r is Ok, final(storage).view() == old(storage).view(),
{ unimplemented!() }

#[derive(Clone, Copy)]
pub struct QuerierWrapper { pub w: Ghost<World> }

pub struct Deps<'a> {
    pub storage: &'a dyn Storage,
    pub api: &'a Api,
    pub querier: QuerierWrapper,
}
impl<'a> Clone for Deps<'a> {
    #[verifier::external_body]
    fn clone(&self) -> (r: Deps<'a>) ensures r == *self, { unimplemented!() }
}
impl<'a> Copy for Deps<'a> {}

pub struct DepsMut<'a> {
    pub storage: &'a mut dyn Storage,
    pub api: &'a Api,
    pub querier: QuerierWrapper,
}

impl<'a> DepsMut<'a> {
    #[verifier::external_body]
    pub fn as_ref(&self) -> (r: Deps<'_>)
        ensures
            r.storage.view() == old(self.storage).view(),
            r.querier == self.querier,
            r.api == self.api,
    { unimplemented!() }
}
impl<'a> Deps<'a> {
    #[verifier::external_body]
    pub fn to_owned(&self) -> (r: Deps<'a>)
        ensures r == *self,
    { unimplemented!() }
}

// ---------- cross-contract queries (T5e): `querier.query(&request)` answers with the callee's query result for the current
// committed state; the answer is a function of the querier and of (address, payload). The thin wrapper functions of the
// repository's querier.rs files are EXTRACTED and verified against this single generic contract. ----------
pub enum BankQuery { Balance { address: String, denom: String } }
pub enum WasmQuery { Smart { contract_addr: String, msg: Binary } }
pub enum QueryRequest { Bank(BankQuery), Wasm(WasmQuery) }
pub ghost enum QueryView {
    Smart { addr: Seq<char>, payload: Payload },
    BankBalance { address: Seq<char>, denom: Seq<char> },
}
pub open spec fn request_view(r: QueryRequest) -> QueryView {
    match r {
        QueryRequest::Wasm(WasmQuery::Smart { contract_addr, msg }) => QueryView::Smart { addr: contract_addr@, payload: msg.p@ },
        QueryRequest::Bank(BankQuery::Balance { address, denom }) => QueryView::BankBalance { address: address@, denom: denom@ },
    }
}
pub uninterp spec fn query_answer<T>(q: QuerierWrapper, req: QueryView) -> T;
pub uninterp spec fn query_ok<T>(q: QuerierWrapper, req: QueryView) -> bool;   // the callee exists, is not failing and answers this type
impl QuerierWrapper {
    #[verifier::external_body]
    pub fn query<T>(&self, request: &QueryRequest) -> (r: StdResult<T>)
        ensures
            r is Ok <==> query_ok::<T>(*self, request_view(*request)),
            r is Ok ==> r->Ok_0 == query_answer::<T>(*self, request_view(*request)),
            // a contract that answers a smart query has a well-formed address
            r is Ok ==> (request_view(*request) matches QueryView::Smart { addr, payload } ==> is_address(addr)),
    { unimplemented!() }
}
// cosmwasm_std::BalanceResponse and the convenience method QuerierWrapper::query_balance(address, denom): the bank Balance query of
// (address, denom), answered with `.amount` of its BalanceResponse (cosmwasm-std 1.x traits/querier: exactly that request)
pub struct BalanceResponse { pub amount: Coin }
impl StrLike for Addr {
    open spec fn sview(&self) -> Seq<char> { self@ }
}
impl StrLike for &Addr {
    open spec fn sview(&self) -> Seq<char> { (*self)@ }
}
impl QuerierWrapper {
    #[verifier::external_body]
    pub fn query_balance<A: StrLike, B: StrLike>(&self, address: A, denom: B) -> (r: StdResult<Coin>)
        ensures
            r is Ok <==> query_ok::<BalanceResponse>(*self, QueryView::BankBalance { address: address.sview(), denom: denom.sview() }),
            r is Ok ==> r->Ok_0 == query_answer::<BalanceResponse>(*self, QueryView::BankBalance { address: address.sview(), denom: denom.sview() }).amount,
    { unimplemented!() }
}
