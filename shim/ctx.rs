// ===== shim/ctx.rs — Storage / Deps / DepsMut (assumed, T2/T4/T5e) =====
// `Store` (the typed view of this contract's storage) and `World` (what cross-contract queries see)
// are defined by the unit's own store shim.

pub trait Storage {
    spec fn view(&self) -> Store;
}

#[derive(Clone, Copy)]
pub struct QuerierWrapper { pub w: Ghost<World> }

pub struct Deps<'a> {
    pub storage: &'a dyn Storage,
    pub api: &'a Api,
    pub querier: QuerierWrapper,
}
impl<'a> Clone for Deps<'a> {
    #[verifier::external_body]
    fn clone(&self) -> (r: Deps<'a>) ensures r == *self, { unimplemented!() }
}
impl<'a> Copy for Deps<'a> {}

pub struct DepsMut<'a> {
    pub storage: &'a mut dyn Storage,
    pub api: &'a Api,
    pub querier: QuerierWrapper,
}

impl<'a> DepsMut<'a> {
    #[verifier::external_body]
    pub fn as_ref(&self) -> (r: Deps<'_>)
        ensures
            r.storage.view() == old(self.storage).view(),
            r.querier == self.querier,
            r.api == self.api,
    { unimplemented!() }
}
impl<'a> Deps<'a> {
    #[verifier::external_body]
    pub fn to_owned(&self) -> (r: Deps<'a>)
        ensures r == *self,
    { unimplemented!() }
}
