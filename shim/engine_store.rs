// ===== shim/engine_store.rs — typed storage cells of the margin engine (T4), Admin/Hooks (T3), cross-contract queries (T5e) =====

pub ghost struct Store {
    pub config: Option<Config>,
    pub state: Option<State>,
    pub positions: Map<Seq<char>, Position>,                  // key: vamm ++ trader, the byte string fed to sha3 (sha3 assumed collision-free); NO separator, as in the code
    pub tmp_swap: Option<TmpSwapInfo>,
    pub sent_funds: Option<SentFunds>,
    pub tmp_liquidator: Option<Addr>,
    pub vamm_map: Map<Seq<char>, VammMap>,
    pub admin: Option<Addr>,                                  // cw_controllers::Admin("pauser")
    pub whitelist: Seq<Seq<char>>,                            // cw_controllers::Hooks("whitelist")
}
pub ghost struct World { pub _w: int }

pub open spec fn pkey(vamm: Seq<char>, trader: Seq<char>) -> Seq<char> { vamm + trader }

// ---- singleton cells ----
#[verifier::external_body]
pub fn singleton_load__KEY_CONFIG(storage: &dyn Storage) -> (r: StdResult<Config>)
    ensures storage.view().config is Some <==> r is Ok, r is Ok ==> Some(r->Ok_0) == storage.view().config,
{ unimplemented!() }
#[verifier::external_body]
pub fn singleton_save__KEY_CONFIG(storage: &mut dyn Storage, v: &Config) -> (r: StdResult<()>)
    ensures
        r is Ok,   // serde serialisation of these plain types cannot fail (T4)
        r is Ok ==> final(storage).view() == (Store { config: Some(*v), ..old(storage).view() }),
        r is Err ==> final(storage).view() == old(storage).view(),
{ unimplemented!() }
#[verifier::external_body]
pub fn singleton_load__KEY_STATE(storage: &dyn Storage) -> (r: StdResult<State>)
    ensures storage.view().state is Some <==> r is Ok, r is Ok ==> Some(r->Ok_0) == storage.view().state,
{ unimplemented!() }
#[verifier::external_body]
pub fn singleton_save__KEY_STATE(storage: &mut dyn Storage, v: &State) -> (r: StdResult<()>)
    ensures
        r is Ok,   // serde serialisation of these plain types cannot fail (T4)
        r is Ok ==> final(storage).view() == (Store { state: Some(*v), ..old(storage).view() }),
        r is Err ==> final(storage).view() == old(storage).view(),
{ unimplemented!() }

#[verifier::external_body]
pub fn singleton_save__KEY_SENT_FUNDS(storage: &mut dyn Storage, v: &SentFunds) -> (r: StdResult<()>)
    ensures
        r is Ok,   // serde serialisation of these plain types cannot fail (T4)
        r is Ok ==> final(storage).view() == (Store { sent_funds: Some(*v), ..old(storage).view() }),
        r is Err ==> final(storage).view() == old(storage).view(),
{ unimplemented!() }
#[verifier::external_body]
pub fn singleton_may_load__KEY_SENT_FUNDS(storage: &dyn Storage) -> (r: StdResult<Option<SentFunds>>)
    ensures r is Ok, r->Ok_0 == storage.view().sent_funds,
{ unimplemented!() }
#[verifier::external_body]
pub fn singleton_remove__KEY_SENT_FUNDS(storage: &mut dyn Storage)
    ensures final(storage).view() == (Store { sent_funds: None, ..old(storage).view() }),
{ unimplemented!() }

#[verifier::external_body]
pub fn singleton_save__KEY_TMP_SWAP(storage: &mut dyn Storage, v: &TmpSwapInfo) -> (r: StdResult<()>)
    ensures
        r is Ok,   // serde serialisation of these plain types cannot fail (T4)
        r is Ok ==> final(storage).view() == (Store { tmp_swap: Some(*v), ..old(storage).view() }),
        r is Err ==> final(storage).view() == old(storage).view(),
{ unimplemented!() }
#[verifier::external_body]
pub fn singleton_may_load__KEY_TMP_SWAP(storage: &dyn Storage) -> (r: StdResult<Option<TmpSwapInfo>>)
    ensures r is Ok, r->Ok_0 == storage.view().tmp_swap,
{ unimplemented!() }
#[verifier::external_body]
pub fn singleton_remove__KEY_TMP_SWAP(storage: &mut dyn Storage)
    ensures final(storage).view() == (Store { tmp_swap: None, ..old(storage).view() }),
{ unimplemented!() }

#[verifier::external_body]
pub fn singleton_save__KEY_TMP_LIQUIDATOR(storage: &mut dyn Storage, v: &Addr) -> (r: StdResult<()>)
    ensures
        r is Ok,   // serde serialisation of these plain types cannot fail (T4)
        r is Ok ==> final(storage).view() == (Store { tmp_liquidator: Some(*v), ..old(storage).view() }),
        r is Err ==> final(storage).view() == old(storage).view(),
{ unimplemented!() }
#[verifier::external_body]
pub fn singleton_may_load__KEY_TMP_LIQUIDATOR(storage: &dyn Storage) -> (r: StdResult<Option<Addr>>)
    ensures r is Ok, r->Ok_0 == storage.view().tmp_liquidator,
{ unimplemented!() }
#[verifier::external_body]
pub fn singleton_remove__KEY_TMP_LIQUIDATOR(storage: &mut dyn Storage)
    ensures final(storage).view() == (Store { tmp_liquidator: None, ..old(storage).view() }),
{ unimplemented!() }

// ---- position bucket: key = sha3_256(vamm bytes || trader bytes). the three accessors are extracted; the bucket is a map keyed by
//      the concatenated byte string (sha3 collision-free). The concatenation itself is modelled faithfully: ("ab","c") and ("a","bc") alias. ----
pub open spec fn default_position() -> Position {
    Position { vamm: Addr { s: Ghost(""@) }, trader: Addr { s: Ghost(""@) }, direction: Direction::AddToAmm,
        size: Integer { value: Uint128(0), negative: false }, margin: Uint128(0), notional: Uint128(0),
        last_updated_premium_fraction: Integer { value: Uint128(0), negative: false }, block_number: 0 }
}
pub open spec fn position_at(s: Store, vamm: Seq<char>, trader: Seq<char>) -> Position {
    if s.positions.contains_key(pkey(vamm, trader)) { s.positions[pkey(vamm, trader)] } else { default_position() }
}
// sha3::Sha3_256 through the Digest trait. The digest is identified with the byte string fed to the hasher: collision-freedom of
// sha3-256 is the (standard) assumption, everything else - WHAT is fed, in which order, under which key the bucket is touched - is
// read from the extracted functions.
pub struct Sha3_256 { pub fed: Ghost<Seq<char>> }
pub struct Sha3Digest { pub of: Ghost<Seq<char>> }
impl Sha3_256 {
    #[verifier::external_body]
    pub fn new() -> (r: Sha3_256) ensures r.fed@ == Seq::<char>::empty(), { unimplemented!() }
    #[verifier::external_body]
    pub fn update(&mut self, data: AddrBytes) ensures final(self).fed@ == old(self).fed@ + data.k@, { unimplemented!() }
    #[verifier::external_body]
    pub fn finalize(self) -> (r: Sha3Digest) ensures r.of@ == self.fed@, { unimplemented!() }
}
// typed-cell primitives of the position bucket (cosmwasm_storage::Bucket<Position> under KEY_POSITION), keyed by a digest
#[verifier::external_body]
pub fn position_bucket_save(storage: &mut dyn Storage, key: &Sha3Digest, position: &Position) -> (r: StdResult<()>)
    ensures
        r is Ok,
        final(storage).view() == (Store { positions: old(storage).view().positions.insert(key.of@, *position), ..old(storage).view() }),
{ unimplemented!() }
#[verifier::external_body]
pub fn position_bucket_remove(storage: &mut dyn Storage, key: &Sha3Digest)
    ensures final(storage).view() == (Store { positions: old(storage).view().positions.remove(key.of@), ..old(storage).view() }),
{ unimplemented!() }
// a stored Position always deserialises (T4b)
#[verifier::external_body]
pub fn position_bucket_may_load(storage: &dyn Storage, key: &Sha3Digest) -> (r: StdResult<Option<Position>>)
    ensures r is Ok, r->Ok_0 == (if storage.view().positions.contains_key(key.of@) { Some(storage.view().positions[key.of@]) } else { None::<Position> }),
{ unimplemented!() }

// ---- vamm-map bucket keyed by the vAMM address bytes ----
pub struct AddrBytes { pub k: Ghost<Seq<char>> }
pub trait AsBytesShim { fn as_bytes(&self) -> AddrBytes; }
impl AsBytesShim for Addr {
    #[verifier::external_body]
    fn as_bytes(&self) -> (r: AddrBytes) ensures r.k@ == self@, { unimplemented!() }
}
#[verifier::external_body]
pub fn bucket_save__KEY_VAMM_MAP(storage: &mut dyn Storage, key: AddrBytes, v: &VammMap) -> (r: StdResult<()>)
    ensures
        r is Ok,   // serde serialisation of these plain types cannot fail (T4)
        r is Ok ==> final(storage).view() == (Store { vamm_map: old(storage).view().vamm_map.insert(key.k@, *v), ..old(storage).view() }),
        r is Err ==> final(storage).view() == old(storage).view(),
{ unimplemented!() }
#[verifier::external_body]
pub fn bucket_may_load__KEY_VAMM_MAP(storage: &dyn Storage, key: AddrBytes) -> (r: StdResult<Option<VammMap>>)
    ensures r is Ok, r->Ok_0 == (if storage.view().vamm_map.contains_key(key.k@) { Some(storage.view().vamm_map[key.k@]) } else { None::<VammMap> }),
{ unimplemented!() }
pub open spec fn default_vamm_map(m: VammMap) -> bool { m.last_restriction_block == 0 && m.cumulative_premium_fractions@.len() == 0 }
pub open spec fn vamm_map_at(s: Store, vamm: Seq<char>) -> VammMap
    recommends s.vamm_map.contains_key(vamm)
{ s.vamm_map[vamm] }
// ---- cw_controllers::Admin (PAUSER) and Hooks (WHITELIST) (T3) ----
pub struct Admin {}
pub struct AdminError { pub _e: Ghost<int> }
pub struct HookError { pub _e: Ghost<int> }
impl Admin {
    pub const fn new(ns: &str) -> (r: Admin) { Admin {} }
    #[verifier::external_body]
    pub fn is_admin(&self, deps: Deps, caller: &Addr) -> (r: StdResult<bool>)
        ensures r is Ok, r->Ok_0 == (deps.storage.view().admin == Some(*caller)),   // a typed-cell load of a present or absent value never fails (T3/T4)
    { unimplemented!() }
    #[verifier::external_body]
    pub fn get(&self, deps: Deps) -> (r: StdResult<Option<Addr>>)
        ensures r is Ok, r->Ok_0 == deps.storage.view().admin,
    { unimplemented!() }
    #[verifier::external_body]
    pub fn set(&self, deps: DepsMut, admin: Option<Addr>) -> (r: StdResult<()>)
        ensures
            r is Ok ==> final(deps.storage).view() == (Store { admin: admin, ..old(deps.storage).view() }),
            r is Err ==> final(deps.storage).view() == old(deps.storage).view(),
    { unimplemented!() }
    #[verifier::external_body]
    pub fn execute_update_admin(&self, deps: DepsMut, info: MessageInfo, new_admin: Option<Addr>) -> (r: Result<Response, AdminError>)
        ensures
            r is Ok ==> old(deps.storage).view().admin == Some(info.sender),
            r is Ok ==> final(deps.storage).view() == (Store { admin: new_admin, ..old(deps.storage).view() }),
            r is Ok ==> r->Ok_0.messages@.len() == 0,
            r is Err ==> final(deps.storage).view() == old(deps.storage).view(),
    { unimplemented!() }
}
pub struct HooksResponse { pub hooks: Vec<String> }
pub struct Hooks {}
impl Hooks {
    pub const fn new(ns: &str) -> (r: Hooks) { Hooks {} }
    #[verifier::external_body]
    pub fn query_hook(&self, deps: Deps, hook: String) -> (r: StdResult<bool>)
        ensures r is Ok, r->Ok_0 == deps.storage.view().whitelist.contains(hook@),
    { unimplemented!() }
    #[verifier::external_body]
    pub fn query_hooks(&self, deps: Deps) -> (r: StdResult<HooksResponse>)
        ensures r is Ok,
    { unimplemented!() }
    // only `admin`'s holder may edit; add fails if present, remove fails if absent
    #[verifier::external_body]
    pub fn execute_add_hook(&self, admin: &Admin, deps: DepsMut, info: MessageInfo, addr: Addr) -> (r: Result<Response, HookError>)
        ensures
            r is Ok ==> old(deps.storage).view().admin == Some(info.sender),
            r is Ok ==> final(deps.storage).view() == (Store { whitelist: old(deps.storage).view().whitelist.push(addr@), ..old(deps.storage).view() }),
            r is Ok ==> r->Ok_0.messages@.len() == 0,
            r is Err ==> final(deps.storage).view() == old(deps.storage).view(),
    { unimplemented!() }
    #[verifier::external_body]
    pub fn execute_remove_hook(&self, admin: &Admin, deps: DepsMut, info: MessageInfo, addr: Addr) -> (r: Result<Response, HookError>)
        ensures
            r is Ok ==> old(deps.storage).view().admin == Some(info.sender),
            r is Ok ==> final(deps.storage).view().whitelist == old(deps.storage).view().whitelist.filter(|a: Seq<char>| a != addr@)
                && final(deps.storage).view() == (Store { whitelist: final(deps.storage).view().whitelist, ..old(deps.storage).view() }),
            r is Ok ==> r->Ok_0.messages@.len() == 0,
            r is Err ==> final(deps.storage).view() == old(deps.storage).view(),
    { unimplemented!() }
}

// ---- cross-contract queries: what each wrapper of engine/src/querier.rs and margined_perp/src/querier.rs asks for.
//      The wrappers themselves are extracted (specs/engine.vrs) and verified against QuerierWrapper::query (shim/ctx.rs). ----
pub open spec fn smart(addr: Seq<char>, p: Payload) -> QueryView { QueryView::Smart { addr: addr, payload: p } }
pub open spec fn q_vamm_config(q: QuerierWrapper, vamm: Seq<char>) -> VammConfigResponse { query_answer::<VammConfigResponse>(q, smart(vamm, Payload::VammQConfig)) }
pub open spec fn q_vamm_state(q: QuerierWrapper, vamm: Seq<char>) -> VammStateResponse { query_answer::<VammStateResponse>(q, smart(vamm, Payload::VammQState)) }
pub open spec fn q_vamm_output_amount(q: QuerierWrapper, vamm: Seq<char>, d: Direction, amount: Uint128) -> Uint128 { query_answer::<Uint128>(q, smart(vamm, Payload::VammQOutputAmount { direction: d, amount })) }
pub open spec fn q_vamm_output_twap(q: QuerierWrapper, vamm: Seq<char>, d: Direction, amount: Uint128) -> Uint128 { query_answer::<Uint128>(q, smart(vamm, Payload::VammQOutputTwap { direction: d, amount })) }
pub open spec fn q_vamm_calc_fee(q: QuerierWrapper, vamm: Seq<char>, amount: Uint128) -> CalcFeeResponse { query_answer::<CalcFeeResponse>(q, smart(vamm, Payload::VammQCalcFee { quote_asset_amount: amount })) }
pub open spec fn q_vamm_over_spread(q: QuerierWrapper, vamm: Seq<char>) -> bool { query_answer::<bool>(q, smart(vamm, Payload::VammQOverSpread)) }
pub open spec fn q_vamm_underlying_price(q: QuerierWrapper, vamm: Seq<char>) -> Uint128 { query_answer::<Uint128>(q, smart(vamm, Payload::VammQUnderlyingPrice)) }
pub open spec fn q_vamm_over_fluctuation(q: QuerierWrapper, vamm: Seq<char>, d: Direction, amount: Uint128) -> bool { query_answer::<bool>(q, smart(vamm, Payload::VammQOverFluctuation { direction: d, base_asset_amount: amount })) }
pub open spec fn q_insurance_all_vamm(q: QuerierWrapper, insurance: Seq<char>, limit: Option<u32>) -> AllVammResponse { query_answer::<AllVammResponse>(q, smart(insurance, Payload::FundQAllVamm { limit })) }
pub open spec fn q_insurance_is_vamm(q: QuerierWrapper, insurance: Seq<char>, vamm: Seq<char>) -> bool { query_answer::<VammResponse>(q, smart(insurance, Payload::FundQIsVamm { vamm })).is_vamm }
pub open spec fn q_token_balance(q: QuerierWrapper, token: AssetInfo, account: Seq<char>) -> Uint128 {
    match token {
        AssetInfo::NativeToken { denom } => query_answer::<BalanceResponse>(q, QueryView::BankBalance { address: account, denom: denom@ }).amount.amount,
        AssetInfo::Token { contract_addr } => query_answer::<CW20BalanceResponse>(q, smart(contract_addr@, Payload::Cw20QBalance { address: account })).balance,
    }
}
pub open spec fn qok_vamm_config(q: QuerierWrapper, vamm: Seq<char>) -> bool { query_ok::<VammConfigResponse>(q, smart(vamm, Payload::VammQConfig)) }
pub open spec fn qok_vamm_state(q: QuerierWrapper, vamm: Seq<char>) -> bool { query_ok::<VammStateResponse>(q, smart(vamm, Payload::VammQState)) }
pub open spec fn qok_vamm_output_amount(q: QuerierWrapper, vamm: Seq<char>, d: Direction, amount: Uint128) -> bool { query_ok::<Uint128>(q, smart(vamm, Payload::VammQOutputAmount { direction: d, amount })) }
pub open spec fn qok_vamm_output_twap(q: QuerierWrapper, vamm: Seq<char>, d: Direction, amount: Uint128) -> bool { query_ok::<Uint128>(q, smart(vamm, Payload::VammQOutputTwap { direction: d, amount })) }
pub open spec fn qok_vamm_calc_fee(q: QuerierWrapper, vamm: Seq<char>, amount: Uint128) -> bool { query_ok::<CalcFeeResponse>(q, smart(vamm, Payload::VammQCalcFee { quote_asset_amount: amount })) }
pub open spec fn qok_vamm_over_spread(q: QuerierWrapper, vamm: Seq<char>) -> bool { query_ok::<bool>(q, smart(vamm, Payload::VammQOverSpread)) }
pub open spec fn qok_vamm_underlying_price(q: QuerierWrapper, vamm: Seq<char>) -> bool { query_ok::<Uint128>(q, smart(vamm, Payload::VammQUnderlyingPrice)) }
pub open spec fn qok_vamm_over_fluctuation(q: QuerierWrapper, vamm: Seq<char>, d: Direction, amount: Uint128) -> bool { query_ok::<bool>(q, smart(vamm, Payload::VammQOverFluctuation { direction: d, base_asset_amount: amount })) }
pub open spec fn qok_insurance_is_vamm(q: QuerierWrapper, insurance: Seq<char>, vamm: Seq<char>) -> bool { query_ok::<VammResponse>(q, smart(insurance, Payload::FundQIsVamm { vamm })) }
// cosmwasm_std::BalanceResponse / cw20::BalanceResponse / cw20::Cw20QueryMsg (dependency types)
pub struct CW20BalanceResponse { pub balance: Uint128 }
pub enum Cw20QueryMsg { Balance { address: String }, TokenInfo {} }
pub struct TokenInfoResponse { pub decimals: u8 }   // cw20::TokenInfoResponse: only the field the repository reads
// `denom.chars().next()`: the first character of the text, if any (std, T6)
#[verifier::external_body]
pub fn first_char(s: &String) -> (r: Option<char>)
    ensures s@.len() == 0 ==> r is None, s@.len() > 0 ==> r == Some(s@[0]),
{ unimplemented!() }

// ---- closure / iterator / string functions outside the subset (T6) ----
// funds attached in a given denom: the amount of the first coin of that denom, zero when there is none
pub open spec fn first_coin_at(funds: Seq<Coin>, denom: Seq<char>, i: int) -> bool {
    0 <= i < funds.len() && funds[i].denom@ == denom && forall|j: int| 0 <= j < i ==> (#[trigger] funds[j]).denom@ != denom
}
pub open spec fn sent_amount(funds: Seq<Coin>, denom: Seq<char>) -> Uint128 {
    if exists|i: int| first_coin_at(funds, denom, i) { funds[choose|i: int| first_coin_at(funds, denom, i)].amount } else { Uint128(0) }
}
// `funds.iter().find(|x| x.denom == *denom)`: the first match (std Iterator::find, T6)
#[verifier::external_body]
pub fn find_coin<'a>(funds: &'a Vec<Coin>, denom: &String) -> (r: Option<&'a Coin>)
    ensures
        r is Some <==> (exists|i: int| first_coin_at(funds@, denom@, i)),
        r is Some ==> *r->Some_0 == funds@[choose|i: int| first_coin_at(funds@, denom@, i)],
{ unimplemented!() }

// ---- reply plumbing: cosmwasm_std::{Reply, SubMsgResult, SubMsgResponse, Event, Attribute} as plain data ----
pub struct Attribute { pub key: String, pub value: String }
pub struct Event { pub ty: String, pub attributes: Vec<Attribute> }
pub struct SubMsgResponse { pub events: Vec<Event> }
pub enum SubMsgResult { Ok(SubMsgResponse), Err(String) }
pub struct Reply { pub id: u64, pub result: SubMsgResult }

// "the first element that matches": what `iter().find(|x| x.field == wanted)` returns (std Iterator::find, T6)
pub open spec fn first_event_at(ev: Seq<Event>, ty: Seq<char>, i: int) -> bool {
    0 <= i < ev.len() && ev[i].ty@ == ty && forall|j: int| 0 <= j < i ==> (#[trigger] ev[j]).ty@ != ty
}
pub open spec fn first_attr_at(at: Seq<Attribute>, key: Seq<char>, i: int) -> bool {
    0 <= i < at.len() && at[i].key@ == key && forall|j: int| 0 <= j < i ==> (#[trigger] at[j]).key@ != key
}
pub open spec fn has_event(ev: Seq<Event>, ty: Seq<char>) -> bool { exists|i: int| first_event_at(ev, ty, i) }
pub open spec fn the_event(ev: Seq<Event>, ty: Seq<char>) -> Event { ev[choose|i: int| first_event_at(ev, ty, i)] }
pub open spec fn has_attr(at: Seq<Attribute>, key: Seq<char>) -> bool { exists|i: int| first_attr_at(at, key, i) }
pub open spec fn attr_value(at: Seq<Attribute>, key: Seq<char>) -> Seq<char> { at[choose|i: int| first_attr_at(at, key, i)].value@ }
pub proof fn lemma_first_attr_unique(at: Seq<Attribute>, key: Seq<char>, i: int)
    requires first_attr_at(at, key, i),
    ensures has_attr(at, key), attr_value(at, key) == at[i].value@,
{
    let c = choose|c: int| first_attr_at(at, key, c);
    if c < i { assert(at[c].key@ != key); } else if i < c { assert(at[i].key@ != key); }
}
pub proof fn lemma_first_event_unique(ev: Seq<Event>, ty: Seq<char>, i: int)
    requires first_event_at(ev, ty, i),
    ensures has_event(ev, ty), the_event(ev, ty) == ev[i],
{
    let c = choose|c: int| first_event_at(ev, ty, c);
    if c < i { assert(ev[c].ty@ != ty); } else if i < c { assert(ev[i].ty@ != ty); }
}
#[verifier::external_body]
pub fn find_event<'a>(events: &'a Vec<Event>, ty: &str) -> (r: Option<&'a Event>)
    ensures r is Some <==> has_event(events@, ty@), r is Some ==> *r->Some_0 == the_event(events@, ty@),
{ unimplemented!() }
#[verifier::external_body]
pub fn find_attribute<'a>(attributes: &'a Vec<Attribute>, key: &String) -> (r: Option<&'a Attribute>)
    ensures r is Some <==> has_attr(attributes@, key@), r is Some ==> r->Some_0.value@ == attr_value(attributes@, key@) && r->Some_0.key@ == key@,
{ unimplemented!() }
// Integer::from_str is extracted and verified (specs/common_integer.vrs); str_int is defined there
