// ===== shim/vamm_store.rs — typed storage cells of the vAMM (trusted base T4) and oracle queries (T5e) =====
// Each primitive is one cosmwasm_storage singleton/bucket cell: load-after-save returns the saved value,
// distinct keys do not alias, may_load of an absent key is None. The accessor functions of state.rs
// themselves are EXTRACTED and verified against these primitives (rewrite R11).

pub ghost struct Store {
    pub config: Option<Config>,
    pub state: Option<State>,
    pub snapshots: Map<u64, ReserveSnapshot>,
    pub counter: Option<u64>,
    pub admin: Option<Addr>,       // cw_controllers::Admin("owner")
}
pub ghost struct World { pub _w: int }

#[verifier::external_body]
pub fn singleton_load__KEY_CONFIG(storage: &dyn Storage) -> (r: StdResult<Config>)
    ensures
        storage.view().config is Some <==> r is Ok,
        r is Ok ==> Some(r->Ok_0) == storage.view().config,
{ unimplemented!() }

#[verifier::external_body]
pub fn singleton_save__KEY_CONFIG(storage: &mut dyn Storage, v: &Config) -> (r: StdResult<()>)
    ensures
        r is Ok,   // serde serialisation of these plain types cannot fail (T4)
        r is Ok ==> final(storage).view() == (Store { config: Some(*v), ..old(storage).view() }),
        r is Err ==> final(storage).view() == old(storage).view(),
{ unimplemented!() }

#[verifier::external_body]
pub fn singleton_load__KEY_STATE(storage: &dyn Storage) -> (r: StdResult<State>)
    ensures
        storage.view().state is Some <==> r is Ok,
        r is Ok ==> Some(r->Ok_0) == storage.view().state,
{ unimplemented!() }

#[verifier::external_body]
pub fn singleton_save__KEY_STATE(storage: &mut dyn Storage, v: &State) -> (r: StdResult<()>)
    ensures
        r is Ok,   // serde serialisation of these plain types cannot fail (T4)
        r is Ok ==> final(storage).view() == (Store { state: Some(*v), ..old(storage).view() }),
        r is Err ==> final(storage).view() == old(storage).view(),
{ unimplemented!() }

#[verifier::external_body]
pub fn singleton_may_load__KEY_RESERVE_SNAPSHOT_COUNTER(storage: &dyn Storage) -> (r: StdResult<Option<u64>>)
    ensures r is Ok, r->Ok_0 == storage.view().counter,
{ unimplemented!() }

#[verifier::external_body]
pub fn singleton_save__KEY_RESERVE_SNAPSHOT_COUNTER(storage: &mut dyn Storage, v: &u64) -> (r: StdResult<()>)
    ensures
        r is Ok,   // serde serialisation of these plain types cannot fail (T4)
        r is Ok ==> final(storage).view() == (Store { counter: Some(*v), ..old(storage).view() }),
        r is Err ==> final(storage).view() == old(storage).view(),
{ unimplemented!() }

// bucket key: the big-endian bytes of the index (injective)
pub struct BeKey { pub k: Ghost<u64> }
#[verifier::external_body]
pub fn be_key(h: u64) -> (r: BeKey)
    ensures r.k@ == h,
{ unimplemented!() }

#[verifier::external_body]
pub fn bucket_load__KEY_RESERVE_SNAPSHOT(storage: &dyn Storage, key: BeKey) -> (r: StdResult<ReserveSnapshot>)
    ensures
        storage.view().snapshots.contains_key(key.k@) <==> r is Ok,
        r is Ok ==> r->Ok_0 == storage.view().snapshots[key.k@],
{ unimplemented!() }

#[verifier::external_body]
pub fn bucket_save__KEY_RESERVE_SNAPSHOT(storage: &mut dyn Storage, key: BeKey, v: &ReserveSnapshot) -> (r: StdResult<()>)
    ensures
        r is Ok,   // serde serialisation of these plain types cannot fail (T4)
        r is Ok ==> final(storage).view() == (Store { snapshots: old(storage).view().snapshots.insert(key.k@, *v), ..old(storage).view() }),
        r is Err ==> final(storage).view() == old(storage).view(),
{ unimplemented!() }

// Option<u64>::unwrap_or_default
pub trait UnwrapOrDefaultU64 { fn unwrap_or_default(self) -> u64; }
impl UnwrapOrDefaultU64 for Option<u64> {
    #[verifier::external_body]
    fn unwrap_or_default(self) -> (r: u64)
        ensures r == (match self { Some(v) => v, None => 0u64 }),
    { unimplemented!() }
}

// ---------- cw_controllers::Admin (T3) ----------
pub struct Admin {}
pub struct AdminError { pub _e: Ghost<int> }
impl From<AdminError> for StdError {
    #[verifier::external_body]
    fn from(e: AdminError) -> (r: StdError) { unimplemented!() }
}
impl vstd::std_specs::convert::FromSpecImpl<AdminError> for StdError {
    open spec fn obeys_from_spec() -> bool { false }
    uninterp spec fn from_spec(v: AdminError) -> Self;
}
impl Admin {
    pub const fn new(ns: &str) -> (r: Admin) { Admin {} }

    #[verifier::external_body]
    pub fn is_admin(&self, deps: Deps, caller: &Addr) -> (r: StdResult<bool>)
        ensures r is Ok, r->Ok_0 == (deps.storage.view().admin == Some(*caller)),   // reading the admin cell never fails (T3)
    { unimplemented!() }

    #[verifier::external_body]
    pub fn get(&self, deps: Deps) -> (r: StdResult<Option<Addr>>)
        ensures r is Ok ==> r->Ok_0 == deps.storage.view().admin,
    { unimplemented!() }

    #[verifier::external_body]
    pub fn set(&self, deps: DepsMut, admin: Option<Addr>) -> (r: StdResult<()>)
        ensures
            r is Ok ==> final(deps.storage).view() == (Store { admin: admin, ..old(deps.storage).view() }),
            r is Err ==> final(deps.storage).view() == old(deps.storage).view(),
    { unimplemented!() }

    // only the current admin succeeds; afterwards the new address is admin; nothing else changes
    #[verifier::external_body]
    pub fn execute_update_admin(&self, deps: DepsMut, info: MessageInfo, new_admin: Option<Addr>) -> (r: Result<Response, AdminError>)
        ensures
            r is Ok ==> old(deps.storage).view().admin == Some(info.sender),
            r is Ok ==> final(deps.storage).view() == (Store { admin: new_admin, ..old(deps.storage).view() }),
            r is Ok ==> r->Ok_0.messages@.len() == 0,
            r is Err ==> final(deps.storage).view() == old(deps.storage).view(),
    { unimplemented!() }
}

// ---------- oracle queries: vamm/src/querier.rs wrappers are extracted (specs/vamm.vrs) against QuerierWrapper::query ----------
pub open spec fn oracle_price(q: QuerierWrapper, feed: Seq<char>, key: Seq<char>) -> Uint128 {
    query_answer::<Uint128>(q, QueryView::Smart { addr: feed, payload: Payload::FeedQGetPrice { key } })
}
pub open spec fn oracle_price_ok(q: QuerierWrapper, feed: Seq<char>, key: Seq<char>) -> bool {
    query_ok::<Uint128>(q, QueryView::Smart { addr: feed, payload: Payload::FeedQGetPrice { key } })
}
pub open spec fn oracle_twap_ok(q: QuerierWrapper, feed: Seq<char>, key: Seq<char>, interval: u64) -> bool {
    query_ok::<Uint128>(q, QueryView::Smart { addr: feed, payload: Payload::FeedQGetTwapPrice { key, interval } })
}
pub open spec fn oracle_twap(q: QuerierWrapper, feed: Seq<char>, key: Seq<char>, interval: u64) -> Uint128 {
    query_answer::<Uint128>(q, QueryView::Smart { addr: feed, payload: Payload::FeedQGetTwapPrice { key, interval } })
}
