// ===== shim/pricefeed_store.rs — price feed: typed cells (T4), Admin (T3), std helpers (T6) =====
pub ghost struct Store {
    pub prices: Map<Seq<char>, Seq<PriceData>>,   // cw_storage_plus::Map<String, Vec<PriceData>>("prices")
    pub admin: Option<Addr>,
    pub config: Option<Config>,   // cosmwasm_storage singleton KEY_CONFIG
}
pub ghost struct World { pub _w: int }
#[verifier::external_body]
pub fn singleton_load__KEY_CONFIG(storage: &dyn Storage) -> (r: StdResult<Config>)
    ensures
        r is Ok <==> storage.view().config is Some,   // `load` fails exactly when the cell is empty; a stored value always deserialises (T4)
        r is Ok ==> r->Ok_0 == storage.view().config->Some_0,
{ unimplemented!() }
#[verifier::external_body]
pub fn singleton_may_load__KEY_CONFIG(storage: &dyn Storage) -> (r: StdResult<Option<Config>>)
    ensures r is Ok, r->Ok_0 == storage.view().config,
{ unimplemented!() }
#[verifier::external_body]
pub fn singleton_save__KEY_CONFIG(storage: &mut dyn Storage, v: &Config) -> (r: StdResult<()>)
    ensures
        r is Ok,   // serde serialisation of these plain types cannot fail (T4)
        r is Ok ==> final(storage).view() == (Store { config: Some(*v), ..old(storage).view() }),
        r is Err ==> final(storage).view() == old(storage).view(),
{ unimplemented!() }
#[verifier::external_body]
pub fn item_may_load__PRICES(storage: &dyn Storage, key: String) -> (r: StdResult<Option<Vec<PriceData>>>)
    ensures
        r is Ok,   // a value stored by this contract always deserialises (T4)
        r is Ok ==> (r->Ok_0 is Some <==> storage.view().prices.contains_key(key@)),
        r is Ok && r->Ok_0 is Some ==> r->Ok_0->Some_0@ == storage.view().prices[key@],
{ unimplemented!() }
#[verifier::external_body]
pub fn item_save__PRICES(storage: &mut dyn Storage, key: String, v: &Vec<PriceData>) -> (r: StdResult<()>)
    ensures
        r is Ok,   // serde serialisation of these plain types cannot fail (T4)
        r is Ok ==> final(storage).view() == (Store { prices: old(storage).view().prices.insert(key@, v@), ..old(storage).view() }),
        r is Err ==> final(storage).view() == old(storage).view(),
{ unimplemented!() }

pub struct Admin {}
pub struct AdminError { pub _e: Ghost<int> }
pub struct ContractError { pub _e: Ghost<int> }
impl From<StdError> for ContractError {
    #[verifier::external_body]
    fn from(e: StdError) -> (r: ContractError) { unimplemented!() }
}
impl vstd::std_specs::convert::FromSpecImpl<StdError> for ContractError {
    open spec fn obeys_from_spec() -> bool { false }
    uninterp spec fn from_spec(v: StdError) -> Self;
}
impl From<AdminError> for ContractError {
    #[verifier::external_body]
    fn from(e: AdminError) -> (r: ContractError) { unimplemented!() }
}
impl vstd::std_specs::convert::FromSpecImpl<AdminError> for ContractError {
    open spec fn obeys_from_spec() -> bool { false }
    uninterp spec fn from_spec(v: AdminError) -> Self;
}
impl ContractError {
    #[verifier::external_body]
    #[allow(non_snake_case)]
    pub fn Std(e: StdError) -> (r: ContractError) { unimplemented!() }
}
impl Admin {
    pub const fn new(ns: &str) -> (r: Admin) { Admin {} }
    #[verifier::external_body]
    pub fn assert_admin(&self, deps: Deps, caller: &Addr) -> (r: Result<(), AdminError>)
        ensures r is Ok <==> deps.storage.view().admin == Some(*caller),
    { unimplemented!() }
    #[verifier::external_body]
    pub fn get(&self, deps: Deps) -> (r: StdResult<Option<Addr>>)
        ensures r is Ok, r->Ok_0 == deps.storage.view().admin,
    { unimplemented!() }
    #[verifier::external_body]
    pub fn set(&self, deps: DepsMut, admin: Option<Addr>) -> (r: StdResult<()>)
        ensures
            r is Ok ==> final(deps.storage).view() == (Store { admin: admin, ..old(deps.storage).view() }),
            r is Err ==> final(deps.storage).view() == old(deps.storage).view(),
    { unimplemented!() }
    #[verifier::external_body]
    pub fn execute_update_admin(&self, deps: DepsMut, info: MessageInfo, new_admin: Option<Addr>) -> (r: Result<Response, AdminError>)
        ensures
            r is Ok ==> old(deps.storage).view().admin == Some(info.sender),
            r is Ok ==> final(deps.storage).view() == (Store { admin: new_admin, ..old(deps.storage).view() }),
            r is Ok ==> r->Ok_0.messages@.len() == 0,
            r is Err ==> final(deps.storage).view() == old(deps.storage).view(),
    { unimplemented!() }
}
