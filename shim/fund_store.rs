// ===== shim/fund_store.rs — insurance fund: typed cells (T4), Admin (T3), queries (T5e), std helpers (T6) =====
pub ghost struct Store {
    pub config: Option<Config>,
    pub vamm_list: Option<Seq<Addr>>,     // cw_storage_plus::Item<Vec<Addr>>("vamm-list")
    pub admin: Option<Addr>,
}
pub ghost struct World { pub _w: int }

#[verifier::external_body]
pub fn singleton_load__KEY_CONFIG(storage: &dyn Storage) -> (r: StdResult<Config>)
    ensures storage.view().config is Some <==> r is Ok, r is Ok ==> Some(r->Ok_0) == storage.view().config,
{ unimplemented!() }
#[verifier::external_body]
pub fn singleton_save__KEY_CONFIG(storage: &mut dyn Storage, v: &Config) -> (r: StdResult<()>)
    ensures
        r is Ok,   // serde serialisation of these plain types cannot fail (T4)
        r is Ok ==> final(storage).view() == (Store { config: Some(*v), ..old(storage).view() }),
        r is Err ==> final(storage).view() == old(storage).view(),
{ unimplemented!() }
#[verifier::external_body]
pub fn item_may_load__VAMM_LIST(storage: &dyn Storage) -> (r: StdResult<Option<Vec<Addr>>>)
    ensures
        r is Ok,   // a value stored by this contract always deserialises (T4)
        r is Ok ==> (r->Ok_0 is Some <==> storage.view().vamm_list is Some),
        r is Ok && r->Ok_0 is Some ==> r->Ok_0->Some_0@ == storage.view().vamm_list->Some_0,
{ unimplemented!() }
#[verifier::external_body]
pub fn item_save__VAMM_LIST(storage: &mut dyn Storage, v: &Vec<Addr>) -> (r: StdResult<()>)
    ensures
        r is Ok,   // serde serialisation of these plain types cannot fail (T4)
        r is Ok ==> final(storage).view() == (Store { vamm_list: Some(v@), ..old(storage).view() }),
        r is Err ==> final(storage).view() == old(storage).view(),
{ unimplemented!() }

// std helpers the subset does not cover (declared //@sub rewrites point here)
#[verifier::external_body]
pub fn vec_position_of_addr(v: &Vec<Addr>, x: &Addr) -> (r: usize)
    ensures r < v@.len(), v@[r as int] == *x, forall|j: int| 0 <= j < r ==> v@[j] != *x,
{ unimplemented!() }

pub struct Admin {}
pub struct AdminError { pub _e: Ghost<int> }
impl Admin {
    pub const fn new(ns: &str) -> (r: Admin) { Admin {} }
    #[verifier::external_body]
    pub fn is_admin(&self, deps: Deps, caller: &Addr) -> (r: StdResult<bool>)
        ensures r is Ok, r->Ok_0 == (deps.storage.view().admin == Some(*caller)),   // a typed-cell load of a present or absent value never fails (T3/T4)
    { unimplemented!() }
    #[verifier::external_body]
    pub fn get(&self, deps: Deps) -> (r: StdResult<Option<Addr>>)
        ensures r is Ok, r->Ok_0 == deps.storage.view().admin,
    { unimplemented!() }
    #[verifier::external_body]
    pub fn set(&self, deps: DepsMut, admin: Option<Addr>) -> (r: StdResult<()>)
        ensures
            r is Ok ==> final(deps.storage).view() == (Store { admin: admin, ..old(deps.storage).view() }),
            r is Err ==> final(deps.storage).view() == old(deps.storage).view(),
    { unimplemented!() }
    #[verifier::external_body]
    pub fn execute_update_admin(&self, deps: DepsMut, info: MessageInfo, new_admin: Option<Addr>) -> (r: Result<Response, AdminError>)
        ensures
            r is Ok ==> old(deps.storage).view().admin == Some(info.sender),
            r is Ok ==> final(deps.storage).view() == (Store { admin: new_admin, ..old(deps.storage).view() }),
            r is Ok ==> r->Ok_0.messages@.len() == 0,
            r is Err ==> final(deps.storage).view() == old(deps.storage).view(),
    { unimplemented!() }
}

// fund/src/querier.rs wrappers are extracted (specs/fund.vrs) against QuerierWrapper::query
pub open spec fn q_engine_decimals(q: QuerierWrapper, engine: Seq<char>) -> Uint128 {
    query_answer::<EngineConfigResponse>(q, QueryView::Smart { addr: engine, payload: Payload::EngineQConfig }).decimals
}
pub open spec fn q_vamm_decimals(q: QuerierWrapper, vamm: Seq<char>) -> Uint128 {
    query_answer::<VammConfigResponse>(q, QueryView::Smart { addr: vamm, payload: Payload::VammQConfig }).decimals
}
pub open spec fn q_vamm_open(q: QuerierWrapper, vamm: Seq<char>) -> bool {
    query_answer::<StateResponse>(q, QueryView::Smart { addr: vamm, payload: Payload::VammQState }).open
}
